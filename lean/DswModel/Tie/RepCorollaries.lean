import DswModel.Tie.SwRepair
import DswModel.Tie.GzPath
import DswModel.Tie.SwCorollaries
import DswModel.Props.C08
import DswModel.Props.C08b
import DswModel.Props.C09
import DswModel.Props.C10
import DswModel.Props.EndToEnd
/-!
# C08, C09 and C10 stated about the generated definitions of `repair_dna` / `path_matching`

`DswModel/Props/C08.lean`, `C08b.lean`, `C09.lean`, `C10.lean` and `EndToEnd.lean` prove the repair
properties about the hand-written model (`Dsw.repairDna`, `Dsw.pathMatching`); `Tie/SwRepair.lean`
(`tie_repair_dna`) and `Tie/GzPath.lean` (`tie_path_matching`) prove that the definitions generated from
the Python source (`Gen.repair_dna` of `dsw/spiderweb.py`, `Gen.path_matching` of `dsw/graphized.py`)
compute the model functions on the ties' contract.  Here the two are composed: every theorem below
speaks about `Gen.*`, i.e. about what the Python source computes as translated.

Conventions (`Tie/SpiderwebDefs.lean`, `Tie/RepairDefs.lean`): `cstr s` is the Python `str`, `accPV a`
the two-dimensional NumPy array of the accessor, `chkPV c` is `None` or the `str` of the check,
`repResultPV (cands, st)` is the value `repair_dna` returns — the tuple
`([str …], (detected, flag, count, visited))` — and `pmResultPV (recs, n)` the value `path_matching`
returns — `([((kind, location, nucleotide), fragment) …], visited)`.

The contract of `tie_repair_dna`, hence of every `repair_dna` theorem here: the accessor is well formed
(`Acc.WF`) and has `4^k` rows for the `k` passed as `observed_length`, `1 ≤ k`, the start vertex is a row
index (`v : Nat`, `v < a.size`), the strand is over `ACGT` and at least `k` long, a supplied check is
not the empty string, and the fuel (bounding the `while` loops of `repair_dna` and of the `set_vt` calls)
is at least `len(dna) + 2·len(vt_check) + 3`.  The model-level theorems quantify over arbitrary accessors,
`v : Int` and arbitrary strands; they are specialised to this contract.  For the C08 theorems the
accessor is `inducedAccessor k s` (what graph generation returns, C03), for which the contract's
conditions on the accessor and the start vertex follow from the hypotheses of the model theorems; so do
`IsAcgt`, the length bound and the non-empty check (`RepCor.*` below), and only the fuel bound is added.
The contract of `tie_path_matching`: a well-formed accessor and `-len(accessor) ≤ previous_index <
len(accessor)` (negative indices wrap, as in NumPy), `nucleotides=None`; any fuel.

Theorems that speak about "whatever the function returns" take the returned Python value `x` with
`Gen.repair_dna … = .ok x` and conclude `x = repResultPV (cands, st)` for a model value with the stated
property (`repResultPV` is injective: `RepCor.repResultPV_inj`).

Not transported:
* `C10_scan_terminates` — it is about the scan loop alone (`Dsw.scan`); in the generated code that loop is
  the internal `while` of `Gen.repair_dna`, not a function of its own.  What it says about the generated
  code — the loop ends within the fuel — is part of `gen_C10_total` (the result is `.ok`, in particular
  not `.error .outOfFuel`, for every fuel from `len(dna) + 2·len(vt_check) + 3` on).
* accessors that are not well formed or whose row number is not `4^observed_length`, start vertices that
  are negative or not row indices (`C09_clean`, `C09_sorted_nodup`, `C09_check`, `C10_total`,
  `C10_lookups` hold for those in the model), strands with foreign characters or shorter than `k`
  (`C09_sorted_nodup`, `C09_check`, `C10_lookups` hold for those in the model), `vt_check = ""`.
* `C08_multi` with no edit at all and `len(w) < k` (the tie needs `k ≤ len(dna)`); `gen_C08_multi` has the
  extra hypothesis `es = [] → k ≤ w.length`.
-/
namespace Dsw.Tie
open Dsw Dsw.Py

/-! ## helper lemmas -/

namespace RepCor
open SwCor

/-- a de Bruijn-shaped accessor (`WFdB`, what C13 proves of every generated graph) is well formed in the
sense of the ties. -/
theorem wf_of_wfdb {k : Nat} {a : Acc} (h : WFdB k a) : a.WF := by
  obtain ⟨hsz, hrow⟩ := h
  intro v hv
  rw [hsz] at hv
  obtain ⟨h4, hent⟩ := hrow v hv
  refine ⟨h4, fun j hj => ?_⟩
  have h := hent j hj
  rw [Acc.ent_natCast] at h
  rcases h with h | h
  · exact .inl h
  · refine .inr ?_
    have hlt : (v * 4 + j) % 4 ^ k < 4 ^ k := Nat.mod_lt _ (Nat.pow_pos (by omega))
    rw [h, hsz]
    exact ⟨Int.natCast_nonneg _, by exact_mod_cast hlt⟩

theorem induced_wf (k : Nat) (s : Mask) : (inducedAccessor k s).WF := wf_of_wfdb (wfdb_induced k s)

theorem induced_size (k : Nat) (s : Mask) : (inducedAccessor k s).size = 4 ^ k :=
  Trim.inducedAccessor_size_trim k s

/-- a retained vertex is a row index of the induced accessor. -/
theorem induced_lt {k : Nat} {s : Mask} {v : Nat} (hs : s.size = 4 ^ k) (hv : s.getD v false = true) :
    v < (inducedAccessor k s).size := by
  rw [induced_size, ← hs]
  exact Trim.Mask.lt_size_of_getD hv

/-- an edit with a nucleotide keeps the strand over `ACGT`. -/
theorem edit_acgt {e : Edit} {w w' : List Char} (hw : IsAcgt w) (hp : e.Proper w') : IsAcgt (e.apply w) := by
  cases e with
  | subst p x => exact isAcgt_set hw p hp.1
  | ins p x => exact isAcgt_insert hw p hp
  | del p => exact isAcgt_eraseIdx hw p

/-- one interior edit leaves at least a window. -/
theorem edit_length {e : Edit} {k : Nat} {w : List Char} (hk : 1 ≤ k) (he : e.Interior k w.length) :
    k ≤ (e.apply w).length := by
  obtain ⟨h1, h2⟩ := he
  cases e with
  | subst p x => simp only [Edit.pos] at h2; simp only [Edit.apply, List.length_set]; omega
  | ins p x =>
    simp only [Edit.pos] at h2
    simp only [Edit.apply, List.length_append, List.length_take, List.length_drop, List.length_cons,
      List.length_nil]
    omega
  | del p =>
    simp only [Edit.pos] at h2
    simp only [Edit.apply, List.length_eraseIdx]
    split <;> omega

theorem edit_length_le (e : Edit) (w : List Char) : (e.apply w).length ≤ w.length + 1 := by
  cases e with
  | subst p x => simp [Edit.apply]
  | ins p x =>
    simp only [Edit.apply, List.length_append, List.length_take, List.length_drop, List.length_cons,
      List.length_nil]
    omega
  | del p => simp only [Edit.apply, List.length_eraseIdx]; split <;> omega

theorem applyEdits_acgt {w : List Char} (hw : IsAcgt w) :
    ∀ es : List Edit, (∀ e ∈ es, e.Proper w) → IsAcgt (applyEdits es w)
  | [], _ => hw
  | e :: es, h =>
    edit_acgt (applyEdits_acgt hw es fun e' he' => h e' (List.mem_cons_of_mem _ he')) (h e List.mem_cons_self)

/-- separated interior edits leave at least a window (the stretch before the first edit). -/
theorem applyEdits_length {k : Nat} {w : List Char} {es : List Edit} (hk : 1 ≤ k) (hw : IsAcgt w)
    (hsp : Spaced k es) (hes : ∀ e ∈ es, e.Interior k w.length ∧ e.Proper w) (hl : es = [] → k ≤ w.length) :
    k ≤ (applyEdits es w).length := by
  cases es with
  | nil => exact hl rfl
  | cons e es' =>
    obtain ⟨G0, bs, -, ec, -, -, -, hpos⟩ := applyEdits_blocks k hk (e :: es') w hw hsp hes
    rw [ec, List.length_append, hpos e es' rfl]
    have := (hes e List.mem_cons_self).1.1
    omega

/-- the check of the original strand is not the empty string. -/
theorem checkOf_nonempty {w : List Char} {chk : Option (List Char)} (hc : CheckOf w chk) :
    ∀ c, chk = some c → c ≠ [] := by
  intro c h
  rcases hc with h0 | ⟨m, c', hm, hset, h1⟩
  · rw [h0] at h; cases h
  · rw [h1] at h
    cases h
    intro hnil
    have hl := setVt_length hm hset
    rw [hnil] at hl
    simp at hl
    omega

theorem repResultPV_inj {r r' : List (List Char) × RepairStats} (h : repResultPV r = repResultPV r') :
    r = r' := by
  obtain ⟨c, d, f, n, v⟩ := r
  obtain ⟨c', d', f', n', v'⟩ := r'
  simp only [repResultPV, PV.tup.injEq, List.cons.injEq, PV.list.injEq, PV.int.injEq, PV.bool.injEq,
    and_true, Int.natCast_inj] at h
  obtain ⟨hc, hd, hf, hn, hv⟩ := h
  have hc' : c = c' := List.map_injective_iff.2 (fun _ _ h => PV.str.inj h) hc
  subst hc' hd hf hn hv
  rfl

/-- the generated `repair_dna` returns what the model returns. -/
theorem repair_of_model {a : Acc} {s : List Char} {v k : Nat} {chk : Option (List Char)} {indel : Bool}
    {heap fuel : Nat} {r : List (List Char) × RepairStats}
    (ha : a.WF) (hsz : a.size = 4 ^ k) (hk : 1 ≤ k) (hv : v < a.size) (hs : IsAcgt s) (hlen : k ≤ s.length)
    (hc : ∀ c, chk = some c → c ≠ []) (hf : s.length + 2 * (chk.map List.length).getD 0 + 3 ≤ fuel)
    (h : repairDna a s (v : Int) k chk indel heap = .ok r) :
    Gen.repair_dna fuel (cstr s) (accPV a) (.int (v : Int)) (.int (k : Int)) (chkPV chk) (.bool indel)
      (.int (heap : Int)) = .ok (repResultPV r) := by
  rw [tie_repair_dna a s v k chk indel heap fuel ha hsz hk hv hs hlen hc hf, h]
  rfl

/-- whatever the generated `repair_dna` returns is the embedding of what the model returns. -/
theorem model_of_repair {a : Acc} {s : List Char} {v k : Nat} {chk : Option (List Char)} {indel : Bool}
    {heap fuel : Nat} {x : PV}
    (ha : a.WF) (hsz : a.size = 4 ^ k) (hk : 1 ≤ k) (hv : v < a.size) (hs : IsAcgt s) (hlen : k ≤ s.length)
    (hc : ∀ c, chk = some c → c ≠ []) (hf : s.length + 2 * (chk.map List.length).getD 0 + 3 ≤ fuel)
    (h : Gen.repair_dna fuel (cstr s) (accPV a) (.int (v : Int)) (.int (k : Int)) (chkPV chk) (.bool indel)
      (.int (heap : Int)) = .ok x) :
    ∃ cands st, repairDna a s (v : Int) k chk indel heap = .ok (cands, st) ∧ x = repResultPV (cands, st) := by
  rw [tie_repair_dna a s v k chk indel heap fuel ha hsz hk hv hs hlen hc hf] at h
  obtain ⟨⟨cands, st⟩, h1, h2⟩ := map_ok_inv h
  exact ⟨cands, st, h1, h2⟩

/-- whatever the generated `path_matching` returns is the embedding of what the model returns. -/
theorem model_of_path {a : Acc} {chunk : List Char} {prev : Int} {occ : Nat} {indel : Bool} {fuel : Nat}
    {x : PV} (ha : a.WF) (hp : -(a.size : Int) ≤ prev ∧ prev < a.size)
    (h : Gen.path_matching fuel (cstr chunk) (accPV a) (.int prev) (.int (occ : Int)) (.bool indel) .none =
      .ok x) :
    ∃ recs n, pathMatching a chunk prev occ indel = .ok (recs, n) ∧ x = pmResultPV (recs, n) := by
  rw [tie_path_matching a chunk prev occ indel fuel ha hp] at h
  obtain ⟨⟨recs, n⟩, h1, h2⟩ := map_ok_inv h
  exact ⟨recs, n, h1, h2⟩

/-- the pair `encode` returns with `vt_length > 0`, read back. -/
theorem encResultPV_pair {r : List Char × Option (List Char)} {w c : List Char}
    (h : .tup [.str w, .str c] = encResultPV r) : r = (w, some c) := by
  obtain ⟨s, _ | c'⟩ := r
  · cases h
  · simp only [encResultPV, PV.tup.injEq, List.cons.injEq, PV.str.injEq, and_true] at h
    obtain ⟨rfl, rfl⟩ := h
    rfl

/-! ### the concrete input of the examples

The GC-balanced order-2 accessor of the docstrings (`gcBalanced2 = inducedAccessor 2 gcMask`), start
vertex 1 (`AC`), the walk `TCTCTCTCTCTC` and the doctest's substitution of `A` at position 5.  The
`example`s beside the theorems instantiate every hypothesis on it (so no theorem is vacuous); the
generated code itself is not evaluated by the kernel — where its value is given, it comes from the tie
plus kernel evaluation of the model. -/

def gcMask : Mask := #[false, true, true, false, true, false, false, true,
                       true, false, false, true, false, true, true, false]

theorem gc_eq : gcBalanced2 = inducedAccessor 2 gcMask := rfl
theorem gc_size : gcBalanced2.size = 4 ^ 2 := induced_size 2 gcMask
theorem gc_acgt : IsAcgt "TCTCTCTCTCTC".toList := by unfold IsAcgt; decide
theorem gc_acgt' : IsAcgt "TCTCTATCTCTC".toList := by unfold IsAcgt; decide
theorem gc_walk : isWalk gcBalanced2 ((1 : Nat) : Int) "TCTCTCTCTCTC".toList = true := by decide +kernel
theorem gc_bad : isWalk gcBalanced2 ((1 : Nat) : Int) "TCTCTATCTCTC".toList = false := by decide +kernel
theorem gc_edit : (Edit.subst 5 'A').apply "TCTCTCTCTCTC".toList = "TCTCTATCTCTC".toList := by decide
theorem gc_interior : (Edit.subst 5 'A').Interior 2 "TCTCTCTCTCTC".toList.length := by
  simp [Edit.Interior, Edit.pos]
theorem gc_proper : (Edit.subst 5 'A').Proper "TCTCTCTCTCTC".toList := by
  refine ⟨by decide, by decide⟩
theorem gc_check : setVt "TCTCTCTCTCTC".toList 5 = .ok "AACGC".toList := by decide +kernel

/-- `repair_dna("TCTCTATCTCTC", accessor, 1, 2, has_indel=True, heap_size=1000)` of the generated code
returns `(["TCTCTCTCTCTC", "TCTCTGTCTCTC"], (1, False, 2, 14))`. -/
theorem gc_repair :
    Gen.repair_dna 15 (cstr "TCTCTATCTCTC".toList) (accPV gcBalanced2) (.int 1) (.int 2) PV.none (.bool true)
      (.int 1000) =
      .ok (.tup [.list [.str "TCTCTCTCTCTC".toList, .str "TCTCTGTCTCTC".toList],
                 .tup [.int 1, .bool false, .int 2, .int 14]]) :=
  repair_of_model (a := gcBalanced2) (v := 1) (k := 2) (chk := none) (heap := 1000) gc_wf gc_size (by decide)
    gc_lt gc_acgt' (by decide) (fun _ h => by cases h) (by decide)
    (show repairDna gcBalanced2 "TCTCTATCTCTC".toList ((1 : Nat) : Int) 2 none true 1000 =
      .ok (["TCTCTCTCTCTC".toList, "TCTCTGTCTCTC".toList], ⟨1, false, 2, 14⟩) by decide +kernel)

end RepCor

open SwCor RepCor

/-! ## C10 — repair always returns -/

/-- for every well-formed accessor of order `k`, start vertex, ACGT strand at least one window long and
every option, the generated `repair_dna` returns a (candidates, statistics) pair — it neither raises nor
runs out of the stated fuel (`C10_total` about the generated code). -/
theorem gen_C10_total (a : Acc) (s : List Char) (v k : Nat) (chk : Option (List Char)) (indel : Bool)
    (heap fuel : Nat) (ha : a.WF) (hsz : a.size = 4 ^ k) (hk : 1 ≤ k) (hv : v < a.size) (hs : IsAcgt s)
    (hlen : k ≤ s.length) (hc : ∀ c, chk = some c → c ≠ [])
    (hf : s.length + 2 * (chk.map List.length).getD 0 + 3 ≤ fuel) :
    ∃ cands st, Gen.repair_dna fuel (cstr s) (accPV a) (.int (v : Int)) (.int (k : Int)) (chkPV chk)
      (.bool indel) (.int (heap : Int)) = .ok (repResultPV (cands, st)) := by
  obtain ⟨cands, st, h⟩ := C10_total a s v k chk indel heap hs hk hlen
  exact ⟨cands, st, repair_of_model ha hsz hk hv hs hlen hc hf h⟩

/-- a first nucleotide that is not an arc of the start vertex, a check, no indel handling, heap 0. -/
example : ∃ cands st, Gen.repair_dna 22 (cstr "GTCTCTCTC".toList) (accPV gcBalanced2) (.int 1) (.int 2)
    (.str "AACGC".toList) (.bool false) (.int 0) = .ok (repResultPV (cands, st)) :=
  gen_C10_total gcBalanced2 _ 1 2 (some "AACGC".toList) false 0 22 gc_wf gc_size (by decide) gc_lt
    (by unfold IsAcgt; decide) (by decide) (by decide) (by decide)

/-- whatever the generated `repair_dna` returns, the number of successful graph look-ups it reports is
polynomial in the strand length (`C10_lookups` about the generated code). -/
theorem gen_C10_lookups (a : Acc) (s : List Char) (v k : Nat) (chk : Option (List Char)) (indel : Bool)
    (heap fuel : Nat) (x : PV) (ha : a.WF) (hsz : a.size = 4 ^ k) (hk : 1 ≤ k) (hv : v < a.size)
    (hs : IsAcgt s) (hlen : k ≤ s.length) (hc : ∀ c, chk = some c → c ≠ [])
    (hf : s.length + 2 * (chk.map List.length).getD 0 + 3 ≤ fuel)
    (h : Gen.repair_dna fuel (cstr s) (accPV a) (.int (v : Int)) (.int (k : Int)) (chkPV chk)
      (.bool indel) (.int (heap : Int)) = .ok x) :
    ∃ cands st, x = repResultPV (cands, st) ∧ st.visited ≤ s.length + 18 * k * (s.length + k) := by
  obtain ⟨cands, st, hm, hx⟩ := model_of_repair ha hsz hk hv hs hlen hc hf h
  exact ⟨cands, st, hx, C10_lookups a s v k chk indel heap cands st hk hm⟩

/-- the doctest call reports 14 look-ups; the bound is `12 + 18·2·14 = 516`. -/
example : ∃ cands st, PV.tup [.list [.str "TCTCTCTCTCTC".toList, .str "TCTCTGTCTCTC".toList],
      .tup [.int 1, .bool false, .int 2, .int 14]] = repResultPV (cands, st) ∧
    st.visited ≤ 12 + 18 * 2 * (12 + 2) :=
  gen_C10_lookups gcBalanced2 "TCTCTATCTCTC".toList 1 2 none true 1000 15 _ gc_wf gc_size (by decide) gc_lt
    gc_acgt' (by decide) (fun _ h => by cases h) (by decide) gc_repair

/-! ## C09 — repair leaves clean strands alone and only returns check-consistent candidates -/

/-- a strand that is already a walk comes back alone (or nothing when the supplied check disagrees)
with zero detections — for every start vertex, check, indel setting and heap limit (`C09_clean` about
the generated code). -/
theorem gen_C09_clean (a : Acc) (s : List Char) (v k : Nat) (chk : Option (List Char)) (indel : Bool)
    (heap fuel : Nat) (ha : a.WF) (hsz : a.size = 4 ^ k) (hk : 1 ≤ k) (hv : v < a.size)
    (hlen : k ≤ s.length) (hc : ∀ c, chk = some c → c ≠ [])
    (hf : s.length + 2 * (chk.map List.length).getD 0 + 3 ≤ fuel)
    (hw : isWalk a (v : Int) s = true) :
    ∃ b st, vtMatches s chk = .ok b ∧
      Gen.repair_dna fuel (cstr s) (accPV a) (.int (v : Int)) (.int (k : Int)) (chkPV chk) (.bool indel)
        (.int (heap : Int)) = .ok (repResultPV (if b then [s] else [], st)) ∧ st.detected = 0 := by
  obtain ⟨b, st, hb, hr, hd⟩ := C09_clean a s v k chk indel heap hw
  exact ⟨b, st, hb, repair_of_model ha hsz hk hv (isWalk_isAcgt a s v hw) hlen hc hf hr, hd⟩

example : ∃ b st, vtMatches "TCTCTCTCTCTC".toList (some "AACGC".toList) = .ok b ∧
    Gen.repair_dna 25 (cstr "TCTCTCTCTCTC".toList) (accPV gcBalanced2) (.int 1) (.int 2) (.str "AACGC".toList)
      (.bool true) (.int 1000) = .ok (repResultPV (if b then ["TCTCTCTCTCTC".toList] else [], st)) ∧
    st.detected = 0 :=
  gen_C09_clean gcBalanced2 _ 1 2 (some "AACGC".toList) true 1000 25 gc_wf gc_size (by decide) gc_lt (by decide)
    (by decide) (by decide) gc_walk

/-- without a check the walk itself is the only candidate: the returned value is
`([dna], (0, flag, count, visited))`. -/
theorem gen_C09_clean_nocheck (a : Acc) (s : List Char) (v k : Nat) (indel : Bool)
    (heap fuel : Nat) (ha : a.WF) (hsz : a.size = 4 ^ k) (hk : 1 ≤ k) (hv : v < a.size)
    (hlen : k ≤ s.length) (hf : s.length + 3 ≤ fuel) (hw : isWalk a (v : Int) s = true) :
    ∃ (flag : Bool) (count visited : Nat),
      Gen.repair_dna fuel (cstr s) (accPV a) (.int (v : Int)) (.int (k : Int)) PV.none (.bool indel)
        (.int (heap : Int)) =
        .ok (.tup [.list [.str s], .tup [.int 0, .bool flag, .int (count : Int), .int (visited : Int)]]) := by
  obtain ⟨b, st, hb, hr, hd⟩ := gen_C09_clean a s v k none indel heap fuel ha hsz hk hv hlen
    (fun _ h => by cases h) (by simpa using hf) hw
  have hbt : b = true := Compose.vtMatches_none_eq hb
  subst hbt
  refine ⟨st.flag, st.count, st.visited, ?_⟩
  rw [show chkPV none = PV.none from rfl] at hr
  rw [hr, repResultPV, hd]
  rfl

example : ∃ (flag : Bool) (count visited : Nat),
    Gen.repair_dna 15 (cstr "TCTCTCTCTCTC".toList) (accPV gcBalanced2) (.int 1) (.int 2) PV.none (.bool false)
      (.int 0) =
      .ok (.tup [.list [.str "TCTCTCTCTCTC".toList],
        .tup [.int 0, .bool flag, .int (count : Int), .int (visited : Int)]]) :=
  gen_C09_clean_nocheck gcBalanced2 _ 1 2 false 0 15 gc_wf gc_size (by decide) gc_lt (by decide) (by decide)
    gc_walk

/-- whatever the generated `repair_dna` returns, its candidate list is strictly increasing in Python
string order — sorted and duplicate-free (`C09_sorted_nodup` about the generated code). -/
theorem gen_C09_sorted_nodup (a : Acc) (s : List Char) (v k : Nat) (chk : Option (List Char))
    (indel : Bool) (heap fuel : Nat) (x : PV) (ha : a.WF) (hsz : a.size = 4 ^ k) (hk : 1 ≤ k)
    (hv : v < a.size) (hs : IsAcgt s) (hlen : k ≤ s.length) (hc : ∀ c, chk = some c → c ≠ [])
    (hf : s.length + 2 * (chk.map List.length).getD 0 + 3 ≤ fuel)
    (h : Gen.repair_dna fuel (cstr s) (accPV a) (.int (v : Int)) (.int (k : Int)) (chkPV chk)
      (.bool indel) (.int (heap : Int)) = .ok x) :
    ∃ cands st, x = repResultPV (cands, st) ∧ cands.Pairwise strLt := by
  obtain ⟨cands, st, hm, hx⟩ := model_of_repair ha hsz hk hv hs hlen hc hf h
  exact ⟨cands, st, hx, C09_sorted_nodup a s v k chk indel heap cands st hm⟩

/-- the two candidates of the doctest call are in increasing order. -/
example : ["TCTCTCTCTCTC".toList, "TCTCTGTCTCTC".toList].Pairwise strLt := by
  obtain ⟨cands, st, hx, hp⟩ := gen_C09_sorted_nodup gcBalanced2 "TCTCTATCTCTC".toList 1 2 none true 1000 15 _
    gc_wf gc_size (by decide) gc_lt gc_acgt' (by decide) (fun _ h => by cases h) (by decide) gc_repair
  cases repResultPV_inj (r := (["TCTCTCTCTCTC".toList, "TCTCTGTCTCTC".toList], ⟨1, false, 2, 14⟩)) hx
  exact hp

/-- whatever the generated `repair_dna` returns when a check was supplied, every candidate reproduces
the check — in the model (`setVt`) and through the generated `set_vt` (`C09_check` about the generated
code). -/
theorem gen_C09_check (a : Acc) (s : List Char) (v k : Nat) (c : List Char) (indel : Bool)
    (heap fuel : Nat) (x : PV) (ha : a.WF) (hsz : a.size = 4 ^ k) (hk : 1 ≤ k) (hv : v < a.size)
    (hs : IsAcgt s) (hlen : k ≤ s.length) (hc : c ≠ []) (hf : s.length + 2 * c.length + 3 ≤ fuel)
    (h : Gen.repair_dna fuel (cstr s) (accPV a) (.int (v : Int)) (.int (k : Int)) (.str c)
      (.bool indel) (.int (heap : Int)) = .ok x) :
    ∃ cands st, x = repResultPV (cands, st) ∧ ∀ y ∈ cands, setVt y c.length = .ok c ∧
      ∀ fuel', 2 * c.length + 2 ≤ fuel' →
        Gen.set_vt fuel' (cstr y) (.int (c.length : Int)) = .ok (cstr c) := by
  obtain ⟨cands, st, hm, hx⟩ := model_of_repair (chk := some c) ha hsz hk hv hs hlen
    (fun c' h' => by cases h'; exact hc) (by simpa using hf) h
  refine ⟨cands, st, hx, fun y hy => ?_⟩
  have hy' := C09_check a s v k c indel heap cands st hm y hy
  refine ⟨hy', fun fuel' hf' => ?_⟩
  rw [tie_set_vt y c.length fuel' (List.length_pos_iff.2 hc) hf', hy']
  rfl

example (x : PV) (h : Gen.repair_dna 25 (cstr "TCTCTATCTCTC".toList) (accPV gcBalanced2) (.int 1) (.int 2)
      (.str "AACGC".toList) (.bool true) (.int 1000) = .ok x) :
    ∃ cands st, x = repResultPV (cands, st) ∧ ∀ y ∈ cands, setVt y 5 = .ok "AACGC".toList ∧
      ∀ fuel', 12 ≤ fuel' → Gen.set_vt fuel' (cstr y) (.int 5) = .ok (cstr "AACGC".toList) :=
  gen_C09_check gcBalanced2 _ 1 2 "AACGC".toList true 1000 25 x gc_wf gc_size (by decide) gc_lt gc_acgt'
    (by decide) (by decide) (by decide) h

/-- the three "whatever it returns" facts together with totality: on the contract the generated
`repair_dna` returns a pair whose candidates are strictly increasing and reproduce a supplied check, and
whose look-up count is within the bound. -/
theorem gen_C09_C10_summary (a : Acc) (s : List Char) (v k : Nat) (chk : Option (List Char)) (indel : Bool)
    (heap fuel : Nat) (ha : a.WF) (hsz : a.size = 4 ^ k) (hk : 1 ≤ k) (hv : v < a.size) (hs : IsAcgt s)
    (hlen : k ≤ s.length) (hc : ∀ c, chk = some c → c ≠ [])
    (hf : s.length + 2 * (chk.map List.length).getD 0 + 3 ≤ fuel) :
    ∃ cands st, Gen.repair_dna fuel (cstr s) (accPV a) (.int (v : Int)) (.int (k : Int)) (chkPV chk)
        (.bool indel) (.int (heap : Int)) = .ok (repResultPV (cands, st)) ∧
      cands.Pairwise strLt ∧ (∀ c, chk = some c → ∀ y ∈ cands, setVt y c.length = .ok c) ∧
      st.visited ≤ s.length + 18 * k * (s.length + k) := by
  obtain ⟨cands, st, h⟩ := C10_total a s v k chk indel heap hs hk hlen
  refine ⟨cands, st, repair_of_model ha hsz hk hv hs hlen hc hf h,
    C09_sorted_nodup a s v k chk indel heap cands st h, ?_, C10_lookups a s v k chk indel heap cands st hk h⟩
  intro c hcc
  subst hcc
  exact C09_check a s v k c indel heap cands st h

example : ∃ cands st, Gen.repair_dna 25 (cstr "TCTCTATCTCTC".toList) (accPV gcBalanced2) (.int 1) (.int 2)
      (.str "AACGC".toList) (.bool true) (.int 1000) = .ok (repResultPV (cands, st)) ∧
    cands.Pairwise strLt ∧ (∀ c, some "AACGC".toList = some c → ∀ y ∈ cands, setVt y c.length = .ok c) ∧
    st.visited ≤ 12 + 18 * 2 * (12 + 2) :=
  gen_C09_C10_summary gcBalanced2 _ 1 2 (some "AACGC".toList) true 1000 25 gc_wf gc_size (by decide) gc_lt
    gc_acgt' (by decide) (by decide) (by decide)

/-! ## C08 — repair recovers the original strand for separated interior edits

Setting as in `Props/C08.lean`: the graph is vertex-induced on a vertex set `s` (`inducedAccessor k s`,
what graph generation returns — `gen_C08_single_generated` spells that out for `connectCodingGraph`),
`v` is a retained vertex, `w` a walk from `v`; the generated `repair_dna` is given the corrupted strand
`e.apply w`.  The contract of the tie follows from these hypotheses; only the fuel bound is new. -/

/-- the substitution case, with or without indel handling (`C08_single_subst_only` about the generated
code). -/
theorem gen_C08_single_subst_only (k : Nat) (s : Mask) (v : Nat) (w : List Char) (p : Nat) (x : Char)
    (chk : Option (List Char)) (heap : Nat) (indel : Bool) (fuel : Nat) (hk : 1 ≤ k) (hs : s.size = 4 ^ k)
    (hv : s.getD v false = true)
    (hw : isWalk (inducedAccessor k s) v w = true) (he : (Edit.subst p x).Interior k w.length)
    (hp : (Edit.subst p x).Proper w) (hc : CheckOf w chk) (hheap : 9 * k ≤ heap)
    (hbad : isWalk (inducedAccessor k s) v ((Edit.subst p x).apply w) = false)
    (hf : ((Edit.subst p x).apply w).length + 2 * (chk.map List.length).getD 0 + 3 ≤ fuel) :
    ∃ cands st, Gen.repair_dna fuel (cstr ((Edit.subst p x).apply w)) (accPV (inducedAccessor k s))
        (.int (v : Int)) (.int (k : Int)) (chkPV chk) (.bool indel) (.int (heap : Int)) =
        .ok (repResultPV (cands, st)) ∧
      st.detected = 1 ∧ w ∈ cands := by
  obtain ⟨cands, st, hr, hd, hm⟩ := C08_single_subst_only k s v w p x chk heap indel hk hs hv hw he hp hc hheap hbad
  exact ⟨cands, st, repair_of_model (induced_wf k s) (induced_size k s) hk (induced_lt hs hv)
    (edit_acgt (isWalk_isAcgt _ w _ hw) hp) (edit_length hk he) (checkOf_nonempty hc) hf hr, hd, hm⟩

/-- one interior edit of any kind, indel handling on, a heap limit of at least `9k`: if the corrupted
strand is no longer a walk, the generated `repair_dna` reports exactly one error and the original strand
is among the candidates, also when the check of the original is supplied (`C08_single` about the
generated code). -/
theorem gen_C08_single (k : Nat) (s : Mask) (v : Nat) (w : List Char) (e : Edit) (chk : Option (List Char))
    (heap fuel : Nat) (hk : 1 ≤ k) (hs : s.size = 4 ^ k) (hv : s.getD v false = true)
    (hw : isWalk (inducedAccessor k s) v w = true) (he : e.Interior k w.length) (hp : e.Proper w)
    (hc : CheckOf w chk) (hheap : 9 * k ≤ heap)
    (hbad : isWalk (inducedAccessor k s) v (e.apply w) = false)
    (hf : (e.apply w).length + 2 * (chk.map List.length).getD 0 + 3 ≤ fuel) :
    ∃ cands st, Gen.repair_dna fuel (cstr (e.apply w)) (accPV (inducedAccessor k s))
        (.int (v : Int)) (.int (k : Int)) (chkPV chk) (.bool true) (.int (heap : Int)) =
        .ok (repResultPV (cands, st)) ∧
      st.detected = 1 ∧ w ∈ cands := by
  obtain ⟨cands, st, hr, hd, hm⟩ := C08_single k s v w e chk heap hk hs hv hw he hp hc hheap hbad
  exact ⟨cands, st, repair_of_model (induced_wf k s) (induced_size k s) hk (induced_lt hs hv)
    (edit_acgt (isWalk_isAcgt _ w _ hw) hp) (edit_length hk he) (checkOf_nonempty hc) hf hr, hd, hm⟩

/-- the doctest's substitution, no check, heap limit `18 = 9k`. -/
example : ∃ cands st, Gen.repair_dna 15 (cstr ((Edit.subst 5 'A').apply "TCTCTCTCTCTC".toList))
      (accPV (inducedAccessor 2 gcMask)) (.int 1) (.int 2) PV.none (.bool true) (.int 18) =
      .ok (repResultPV (cands, st)) ∧
    st.detected = 1 ∧ "TCTCTCTCTCTC".toList ∈ cands :=
  gen_C08_single 2 gcMask 1 _ (.subst 5 'A') none 18 15 (by decide) (by decide) (by decide) gc_walk gc_interior
    gc_proper (Or.inl rfl) (by decide) (by rw [gc_edit]; exact gc_bad) (by rw [gc_edit]; decide)

/-- … and with the check of the original strand supplied. -/
example : ∃ cands st, Gen.repair_dna 25 (cstr ((Edit.subst 5 'A').apply "TCTCTCTCTCTC".toList))
      (accPV (inducedAccessor 2 gcMask)) (.int 1) (.int 2) (.str "AACGC".toList) (.bool true) (.int 18) =
      .ok (repResultPV (cands, st)) ∧
    st.detected = 1 ∧ "TCTCTCTCTCTC".toList ∈ cands :=
  gen_C08_single 2 gcMask 1 _ (.subst 5 'A') (some "AACGC".toList) 18 25 (by decide) (by decide) (by decide)
    gc_walk gc_interior gc_proper (Or.inr ⟨5, _, by decide, gc_check, rfl⟩) (by decide)
    (by rw [gc_edit]; exact gc_bad) (by rw [gc_edit]; decide)

/-- with substitutions only the same holds with indel handling off (`C08_single_subst` about the
generated code). -/
theorem gen_C08_single_subst (k : Nat) (s : Mask) (v : Nat) (w : List Char) (p : Nat) (x : Char)
    (chk : Option (List Char)) (heap fuel : Nat) (hk : 1 ≤ k) (hs : s.size = 4 ^ k)
    (hv : s.getD v false = true)
    (hw : isWalk (inducedAccessor k s) v w = true) (he : (Edit.subst p x).Interior k w.length)
    (hp : (Edit.subst p x).Proper w) (hc : CheckOf w chk) (hheap : 9 * k ≤ heap)
    (hbad : isWalk (inducedAccessor k s) v ((Edit.subst p x).apply w) = false)
    (hf : ((Edit.subst p x).apply w).length + 2 * (chk.map List.length).getD 0 + 3 ≤ fuel) :
    ∃ cands st, Gen.repair_dna fuel (cstr ((Edit.subst p x).apply w)) (accPV (inducedAccessor k s))
        (.int (v : Int)) (.int (k : Int)) (chkPV chk) (.bool false) (.int (heap : Int)) =
        .ok (repResultPV (cands, st)) ∧
      st.detected = 1 ∧ w ∈ cands :=
  gen_C08_single_subst_only k s v w p x chk heap false fuel hk hs hv hw he hp hc hheap hbad hf

example : ∃ cands st, Gen.repair_dna 15 (cstr ((Edit.subst 5 'A').apply "TCTCTCTCTCTC".toList))
      (accPV (inducedAccessor 2 gcMask)) (.int 1) (.int 2) PV.none (.bool false) (.int 18) =
      .ok (repResultPV (cands, st)) ∧
    st.detected = 1 ∧ "TCTCTCTCTCTC".toList ∈ cands :=
  gen_C08_single_subst 2 gcMask 1 _ 5 'A' none 18 15 (by decide) (by decide) (by decide) gc_walk gc_interior
    gc_proper (Or.inl rfl) (by decide) (by rw [gc_edit]; exact gc_bad) (by rw [gc_edit]; decide)

/-- the insertion case (`C08_single_ins` about the generated code). -/
theorem gen_C08_single_ins (k : Nat) (s : Mask) (v : Nat) (w : List Char) (p : Nat) (x : Char)
    (chk : Option (List Char)) (heap fuel : Nat) (hk : 1 ≤ k) (hs : s.size = 4 ^ k)
    (hv : s.getD v false = true)
    (hw : isWalk (inducedAccessor k s) v w = true) (he : (Edit.ins p x).Interior k w.length)
    (hp : (Edit.ins p x).Proper w) (hc : CheckOf w chk) (hheap : 9 * k ≤ heap)
    (hbad : isWalk (inducedAccessor k s) v ((Edit.ins p x).apply w) = false)
    (hf : ((Edit.ins p x).apply w).length + 2 * (chk.map List.length).getD 0 + 3 ≤ fuel) :
    ∃ cands st, Gen.repair_dna fuel (cstr ((Edit.ins p x).apply w)) (accPV (inducedAccessor k s))
        (.int (v : Int)) (.int (k : Int)) (chkPV chk) (.bool true) (.int (heap : Int)) =
        .ok (repResultPV (cands, st)) ∧
      st.detected = 1 ∧ w ∈ cands :=
  gen_C08_single k s v w (.ins p x) chk heap fuel hk hs hv hw he hp hc hheap hbad hf

/-- `A` inserted before position 5: `TCTCTACTCTCTC`. -/
example : ∃ cands st, Gen.repair_dna 16 (cstr ((Edit.ins 5 'A').apply "TCTCTCTCTCTC".toList))
      (accPV (inducedAccessor 2 gcMask)) (.int 1) (.int 2) PV.none (.bool true) (.int 18) =
      .ok (repResultPV (cands, st)) ∧
    st.detected = 1 ∧ "TCTCTCTCTCTC".toList ∈ cands :=
  gen_C08_single_ins 2 gcMask 1 _ 5 'A' none 18 16 (by decide) (by decide) (by decide) gc_walk
    (by simp [Edit.Interior, Edit.pos]) (by simp [Edit.Proper]; decide) (Or.inl rfl) (by decide)
    (by decide +kernel) (by decide)

/-- the deletion case (`C08_single_del` about the generated code). -/
theorem gen_C08_single_del (k : Nat) (s : Mask) (v : Nat) (w : List Char) (p : Nat)
    (chk : Option (List Char)) (heap fuel : Nat) (hk : 1 ≤ k) (hs : s.size = 4 ^ k)
    (hv : s.getD v false = true)
    (hw : isWalk (inducedAccessor k s) v w = true) (he : (Edit.del p).Interior k w.length)
    (hc : CheckOf w chk) (hheap : 9 * k ≤ heap)
    (hbad : isWalk (inducedAccessor k s) v ((Edit.del p).apply w) = false)
    (hf : ((Edit.del p).apply w).length + 2 * (chk.map List.length).getD 0 + 3 ≤ fuel) :
    ∃ cands st, Gen.repair_dna fuel (cstr ((Edit.del p).apply w)) (accPV (inducedAccessor k s))
        (.int (v : Int)) (.int (k : Int)) (chkPV chk) (.bool true) (.int (heap : Int)) =
        .ok (repResultPV (cands, st)) ∧
      st.detected = 1 ∧ w ∈ cands :=
  gen_C08_single k s v w (.del p) chk heap fuel hk hs hv hw he trivial hc hheap hbad hf

/-- position 5 deleted: `TCTCTTCTCTC`. -/
example : ∃ cands st, Gen.repair_dna 14 (cstr ((Edit.del 5).apply "TCTCTCTCTCTC".toList))
      (accPV (inducedAccessor 2 gcMask)) (.int 1) (.int 2) PV.none (.bool true) (.int 18) =
      .ok (repResultPV (cands, st)) ∧
    st.detected = 1 ∧ "TCTCTCTCTCTC".toList ∈ cands :=
  gen_C08_single_del 2 gcMask 1 _ 5 none 18 14 (by decide) (by decide) (by decide) gc_walk
    (by simp [Edit.Interior, Edit.pos]) (Or.inl rfl) (by decide) (by decide +kernel) (by decide)

/-- the same for a graph as graph generation returns it: `connect_coding_graph` produced `(vs, a)` and the
start vertex is one of the listed vertices. -/
theorem gen_C08_single_generated (k t : Nat) (m : Mask) (vs : List Nat) (a : Acc) (v : Nat) (w : List Char)
    (e : Edit) (chk : Option (List Char)) (heap fuel : Nat) (hk : 1 ≤ k) (hm : m.size = 4 ^ k) (ht : 1 ≤ t)
    (ht4 : t ≤ 4) (hg : connectCodingGraph k m t = .ok (vs, a)) (hv : v ∈ vs)
    (hw : isWalk a v w = true) (he : e.Interior k w.length) (hp : e.Proper w)
    (hc : CheckOf w chk) (hheap : 9 * k ≤ heap) (hbad : isWalk a v (e.apply w) = false)
    (hf : (e.apply w).length + 2 * (chk.map List.length).getD 0 + 3 ≤ fuel) :
    ∃ cands st, Gen.repair_dna fuel (cstr (e.apply w)) (accPV a) (.int (v : Int)) (.int (k : Int))
        (chkPV chk) (.bool true) (.int (heap : Int)) = .ok (repResultPV (cands, st)) ∧
      st.detected = 1 ∧ w ∈ cands := by
  obtain ⟨s, ⟨hs, -, -, -⟩, rfl, rfl, -, -⟩ := (C03_holds k t m hm hk ht ht4).1 vs a hg
  exact gen_C08_single k s v w e chk heap fuel hk hs (Trim.Mask.mem_indices.1 hv) hw he hp hc hheap hbad hf

/-- `gcBalanced2` is what `connect_coding_graph` returns for the GC-balanced 2-mers at threshold 2. -/
example : ∃ cands st, Gen.repair_dna 15 (cstr ((Edit.subst 5 'A').apply "TCTCTCTCTCTC".toList))
      (accPV gcBalanced2) (.int 1) (.int 2) PV.none (.bool true) (.int 18) = .ok (repResultPV (cands, st)) ∧
    st.detected = 1 ∧ "TCTCTCTCTCTC".toList ∈ cands :=
  gen_C08_single_generated 2 2 gcMask [1, 2, 4, 7, 8, 11, 13, 14] gcBalanced2 1 _ (.subst 5 'A') none 18 15
    (by decide) (by decide) (by decide) (by decide) (by decide +kernel) (by decide) gc_walk gc_interior gc_proper
    (Or.inl rfl) (by decide) (by rw [gc_edit]; exact gc_bad) (by rw [gc_edit]; decide)

/-- several separated interior edits (positions increasing with gaps of at least `3k + 2`), indel
handling on, heap limit at least `(9k)^#edits`: the generated `repair_dna` returns, and when it reports as
many errors as there were edits, the original strand is among the candidates (`C08_multi` about the
generated code; the model theorem is conditional on the model returning, here the return is part of the
conclusion by `C10_total`). -/
theorem gen_C08_multi (k : Nat) (s : Mask) (v : Nat) (w : List Char) (es : List Edit)
    (chk : Option (List Char)) (heap fuel : Nat) (hk : 1 ≤ k) (hs : s.size = 4 ^ k)
    (hv : s.getD v false = true) (hw : isWalk (inducedAccessor k s) v w = true)
    (hes : ∀ e ∈ es, e.Interior k w.length ∧ e.Proper w) (hsp : Spaced k es) (hc : CheckOf w chk)
    (hheap : (9 * k) ^ es.length ≤ heap) (hl : es = [] → k ≤ w.length)
    (hf : (applyEdits es w).length + 2 * (chk.map List.length).getD 0 + 3 ≤ fuel) :
    ∃ cands st, Gen.repair_dna fuel (cstr (applyEdits es w)) (accPV (inducedAccessor k s))
        (.int (v : Int)) (.int (k : Int)) (chkPV chk) (.bool true) (.int (heap : Int)) =
        .ok (repResultPV (cands, st)) ∧
      (st.detected = es.length → w ∈ cands) := by
  have hacgt := isWalk_isAcgt _ w _ hw
  have hs' := applyEdits_acgt hacgt es fun e he => (hes e he).2
  have hlen := applyEdits_length hk hacgt hsp hes hl
  obtain ⟨cands, st, hr⟩ := C10_total (inducedAccessor k s) (applyEdits es w) v k chk true heap hs' hk hlen
  exact ⟨cands, st, repair_of_model (induced_wf k s) (induced_size k s) hk (induced_lt hs hv) hs' hlen
    (checkOf_nonempty hc) hf hr, C08_multi k s v w es chk heap hk hs hv hw hes hsp hc hheap cands st hr⟩

/-- the "whatever it returns" form of the same. -/
theorem gen_C08_multi' (k : Nat) (s : Mask) (v : Nat) (w : List Char) (es : List Edit)
    (chk : Option (List Char)) (heap fuel : Nat) (x : PV) (hk : 1 ≤ k) (hs : s.size = 4 ^ k)
    (hv : s.getD v false = true) (hw : isWalk (inducedAccessor k s) v w = true)
    (hes : ∀ e ∈ es, e.Interior k w.length ∧ e.Proper w) (hsp : Spaced k es) (hc : CheckOf w chk)
    (hheap : (9 * k) ^ es.length ≤ heap) (hl : es = [] → k ≤ w.length)
    (hf : (applyEdits es w).length + 2 * (chk.map List.length).getD 0 + 3 ≤ fuel)
    (h : Gen.repair_dna fuel (cstr (applyEdits es w)) (accPV (inducedAccessor k s))
        (.int (v : Int)) (.int (k : Int)) (chkPV chk) (.bool true) (.int (heap : Int)) = .ok x) :
    ∃ cands st, x = repResultPV (cands, st) ∧ (st.detected = es.length → w ∈ cands) := by
  obtain ⟨cands, st, hr, hd⟩ := gen_C08_multi k s v w es chk heap fuel hk hs hv hw hes hsp hc hheap hl hf
  rw [hr] at h
  cases h
  exact ⟨cands, st, rfl, hd⟩

/-- two substitutions, eight positions apart, in a walk of length 20. -/
example : ∃ cands st, Gen.repair_dna 23
      (cstr (applyEdits [.subst 5 'A', .subst 13 'A'] "TCTCTCTCTCTCTCTCTCTC".toList))
      (accPV (inducedAccessor 2 gcMask)) (.int 1) (.int 2) PV.none (.bool true) (.int 324) =
      .ok (repResultPV (cands, st)) ∧
    (st.detected = 2 → "TCTCTCTCTCTCTCTCTCTC".toList ∈ cands) :=
  gen_C08_multi 2 gcMask 1 _ [.subst 5 'A', .subst 13 'A'] none 324 23 (by decide) (by decide) (by decide)
    (by decide +kernel)
    (by
      intro e he
      simp only [List.mem_cons, List.not_mem_nil, or_false] at he
      rcases he with rfl | rfl
      · exact ⟨by simp [Edit.Interior, Edit.pos], by decide, by decide⟩
      · exact ⟨by simp [Edit.Interior, Edit.pos], by decide, by decide⟩)
    (by simp [Spaced, Edit.pos]) (Or.inl rfl) (by decide) (fun h => by cases h) (by decide)

/-! ## C08 (continued) — `path_matching` as a public function -/

/-- soundness: every record the generated `path_matching` returns is a valid single-edit repair at the
position; indel records only with `has_indel` (`C08_path_matching_sound` about the generated code). -/
theorem gen_C08_path_matching_sound (a : Acc) (chunk : List Char) (prev : Int) (occ : Nat) (indel : Bool)
    (fuel : Nat) (x : PV) (ha : a.WF) (hp : -(a.size : Int) ≤ prev ∧ prev < a.size)
    (h : Gen.path_matching fuel (cstr chunk) (accPV a) (.int prev) (.int (occ : Int)) (.bool indel) .none =
      .ok x) :
    ∃ recs n, x = pmResultPV (recs, n) ∧
      ∀ r ∈ recs, RecordValid a chunk prev occ r ∧ (r.kind ≠ .S → indel = true) := by
  obtain ⟨recs, n, hm, hx⟩ := model_of_path ha hp h
  exact ⟨recs, n, hx, C08_path_matching_sound a chunk prev occ indel recs n hm⟩

/-- completeness: every valid single-edit repair at the position is among the records the generated
`path_matching` returns — substitutions always, insertions and the deletion with `has_indel`
(`C08_path_matching_complete` about the generated code). -/
theorem gen_C08_path_matching_complete (a : Acc) (chunk : List Char) (prev : Int) (occ : Nat) (indel : Bool)
    (fuel : Nat) (x : PV) (ha : a.WF) (hp : -(a.size : Int) ≤ prev ∧ prev < a.size)
    (h : Gen.path_matching fuel (cstr chunk) (accPV a) (.int prev) (.int (occ : Int)) (.bool indel) .none =
      .ok x) :
    ∃ recs n, x = pmResultPV (recs, n) ∧
      ∀ r, RecordValid a chunk prev occ r → (r.kind = .S ∨ indel = true) → r ∈ recs := by
  obtain ⟨recs, n, hm, hx⟩ := model_of_path ha hp h
  exact ⟨recs, n, hx, fun r hr hk => C08_path_matching_complete a chunk prev occ indel recs n hm r hr hk⟩

/-- both together: the records are exactly the valid single-edit repairs. -/
theorem gen_C08_path_matching_iff (a : Acc) (chunk : List Char) (prev : Int) (occ : Nat) (indel : Bool)
    (fuel : Nat) (x : PV) (ha : a.WF) (hp : -(a.size : Int) ≤ prev ∧ prev < a.size)
    (h : Gen.path_matching fuel (cstr chunk) (accPV a) (.int prev) (.int (occ : Int)) (.bool indel) .none =
      .ok x) :
    ∃ recs n, x = pmResultPV (recs, n) ∧
      ∀ r, r ∈ recs ↔ (RecordValid a chunk prev occ r ∧ (r.kind ≠ .S → indel = true)) := by
  obtain ⟨recs, n, hm, hx⟩ := model_of_path ha hp h
  refine ⟨recs, n, hx, fun r => ⟨C08_path_matching_sound a chunk prev occ indel recs n hm r, fun hr => ?_⟩⟩
  refine C08_path_matching_complete a chunk prev occ indel recs n hm r hr.1 ?_
  by_cases hk : r.kind = .S
  · exact .inl hk
  · exact .inr (hr.2 hk)

/-- the generated `path_matching` raises `IndexError` exactly when the position is outside the chunk,
and returns otherwise (`C08_path_matching_error` about the generated code). -/
theorem gen_C08_path_matching_error (a : Acc) (chunk : List Char) (prev : Int) (occ : Nat) (indel : Bool)
    (fuel : Nat) (ha : a.WF) (hp : -(a.size : Int) ≤ prev ∧ prev < a.size) :
    (chunk.length ≤ occ →
      Gen.path_matching fuel (cstr chunk) (accPV a) (.int prev) (.int (occ : Int)) (.bool indel) .none =
        .error .indexError) ∧
    (occ < chunk.length → ∃ r,
      Gen.path_matching fuel (cstr chunk) (accPV a) (.int prev) (.int (occ : Int)) (.bool indel) .none =
        .ok (pmResultPV r)) := by
  rw [tie_path_matching a chunk prev occ indel fuel ha hp]
  obtain ⟨h1, h2⟩ := C08_path_matching_error a chunk prev occ indel
  refine ⟨fun h => ?_, fun h => ?_⟩
  · rw [h1 h]; rfl
  · obtain ⟨r, hr⟩ := h2 h
    exact ⟨r, by rw [hr]; rfl⟩

/-- the look-back of the doctest: chunk `TCTCTATCTCT`, previous vertex 7 (`CT`), position 5; the
generated `path_matching` returns the substitutions `C` and `G` (value from the tie plus kernel
evaluation of the model). -/
theorem RepCor.gc_path :
    Gen.path_matching 0 (cstr "TCTCTATCTCT".toList) (accPV gcBalanced2) (.int 7) (.int 5) (.bool false) .none =
      .ok (pmResultPV ([⟨.S, 5, 'C', "TCTCTCTCTCT".toList⟩, ⟨.S, 5, 'G', "TCTCTGTCTCT".toList⟩], 10)) :=
  (tie_path_matching gcBalanced2 _ 7 5 false 0 gc_wf (by decide +kernel)).trans
    (by rw [show pathMatching gcBalanced2 "TCTCTATCTCT".toList 7 5 false =
          .ok ([⟨.S, 5, 'C', "TCTCTCTCTCT".toList⟩, ⟨.S, 5, 'G', "TCTCTGTCTCT".toList⟩], 10) by decide +kernel]
        rfl)

example : ∃ recs n,
    pmResultPV ([⟨.S, 5, 'C', "TCTCTCTCTCT".toList⟩, ⟨.S, 5, 'G', "TCTCTGTCTCT".toList⟩], 10) =
      pmResultPV (recs, n) ∧
    ∀ r ∈ recs, RecordValid gcBalanced2 "TCTCTATCTCT".toList 7 5 r ∧ (r.kind ≠ .S → false = true) :=
  gen_C08_path_matching_sound gcBalanced2 _ 7 5 false 0 _ gc_wf (by decide +kernel) RepCor.gc_path

example : ∃ recs n,
    pmResultPV ([⟨.S, 5, 'C', "TCTCTCTCTCT".toList⟩, ⟨.S, 5, 'G', "TCTCTGTCTCT".toList⟩], 10) =
      pmResultPV (recs, n) ∧
    ∀ r, RecordValid gcBalanced2 "TCTCTATCTCT".toList 7 5 r → (r.kind = .S ∨ false = true) → r ∈ recs :=
  gen_C08_path_matching_complete gcBalanced2 _ 7 5 false 0 _ gc_wf (by decide +kernel) RepCor.gc_path

example : ∃ recs n,
    pmResultPV ([⟨.S, 5, 'C', "TCTCTCTCTCT".toList⟩, ⟨.S, 5, 'G', "TCTCTGTCTCT".toList⟩], 10) =
      pmResultPV (recs, n) ∧
    ∀ r, r ∈ recs ↔ (RecordValid gcBalanced2 "TCTCTATCTCT".toList 7 5 r ∧ (r.kind ≠ .S → false = true)) :=
  gen_C08_path_matching_iff gcBalanced2 _ 7 5 false 0 _ gc_wf (by decide +kernel) RepCor.gc_path

/-- position 11 is outside the chunk of length 11, position 5 (with a wrapped negative previous index,
`-9 ≡ 7`) is inside. -/
example : Gen.path_matching 0 (cstr "TCTCTATCTCT".toList) (accPV gcBalanced2) (.int 7) (.int 11) (.bool true)
    .none = .error .indexError :=
  (gen_C08_path_matching_error gcBalanced2 _ 7 11 true 0 gc_wf (by decide +kernel)).1 (by decide)
example : ∃ r, Gen.path_matching 0 (cstr "TCTCTATCTCT".toList) (accPV gcBalanced2) (.int (-9)) (.int 5)
    (.bool true) .none = .ok (pmResultPV r) :=
  (gen_C08_path_matching_error gcBalanced2 _ (-9) 5 true 0 gc_wf (by decide +kernel)).2 (by decide)

/-! ## End-to-end corollaries -/

/-- C08/C09 together, for one proper interior edit of a walk on a vertex-induced graph, no check: the
generated `repair_dna` returns, reporting exactly one error with the original among the candidates when
the corrupted strand is no longer a walk, and zero errors with the corrupted strand as the only
candidate when it still is (`E2E_single_edit` about the generated code). -/
theorem gen_E2E_single_edit (k : Nat) (s : Mask) (v : Nat) (w : List Char) (e : Edit) (heap fuel : Nat)
    (hk : 1 ≤ k) (hs : s.size = 4 ^ k) (hv : s.getD v false = true)
    (hw : isWalk (inducedAccessor k s) v w = true) (he : e.Interior k w.length) (hp : e.Proper w)
    (hheap : 9 * k ≤ heap) (hf : (e.apply w).length + 3 ≤ fuel) :
    ∃ cands st, Gen.repair_dna fuel (cstr (e.apply w)) (accPV (inducedAccessor k s))
        (.int (v : Int)) (.int (k : Int)) PV.none (.bool true) (.int (heap : Int)) =
        .ok (repResultPV (cands, st)) ∧
      (isWalk (inducedAccessor k s) v (e.apply w) = false → st.detected = 1 ∧ w ∈ cands) ∧
      (isWalk (inducedAccessor k s) v (e.apply w) = true → st.detected = 0 ∧ cands = [e.apply w]) := by
  obtain ⟨cands, st, hr, h1, h2⟩ := E2E_single_edit k s v w e heap hk hs hv hw he hp hheap
  exact ⟨cands, st, repair_of_model (chk := none) (induced_wf k s) (induced_size k s) hk (induced_lt hs hv)
    (edit_acgt (isWalk_isAcgt _ w _ hw) hp) (edit_length hk he) (fun _ h => by cases h) (by simpa using hf) hr,
    h1, h2⟩

example : ∃ cands st, Gen.repair_dna 15 (cstr ((Edit.subst 5 'A').apply "TCTCTCTCTCTC".toList))
      (accPV (inducedAccessor 2 gcMask)) (.int 1) (.int 2) PV.none (.bool true) (.int 18) =
      .ok (repResultPV (cands, st)) ∧
    (isWalk (inducedAccessor 2 gcMask) 1 ((Edit.subst 5 'A').apply "TCTCTCTCTCTC".toList) = false →
      st.detected = 1 ∧ "TCTCTCTCTCTC".toList ∈ cands) ∧
    (isWalk (inducedAccessor 2 gcMask) 1 ((Edit.subst 5 'A').apply "TCTCTCTCTCTC".toList) = true →
      st.detected = 0 ∧ cands = [(Edit.subst 5 'A').apply "TCTCTCTCTCTC".toList]) :=
  gen_E2E_single_edit 2 gcMask 1 _ (.subst 5 'A') 18 15 (by decide) (by decide) (by decide) gc_walk gc_interior
    gc_proper (by decide) (by rw [gc_edit]; decide)

/-- write, corrupt once, repair with the check, decode — all three through the generated code: if the
generated `encode` (normal mode, `vt_length = n ≥ 1`) returned the pair `(w, c)`, then for one proper
interior edit `e` of `w` that leaves the graph the generated `repair_dna`, given the corrupted strand and
the check `c`, returns candidates among which is `w`, every candidate reproduces the check, and the
generated `decode` of `w` with the check returns the message (`E2E_repair_then_decode` about the generated
code). -/
theorem gen_E2E_repair_then_decode (k : Nat) (s : Mask) (v : Nat) (tbl : Option Tbl) (bits : List Nat)
    (w c : List Char) (e : Edit) (n heap fuelE fuelR fuelD : Nat) (vb vb' : Bool)
    (hk : 1 ≤ k) (hs : s.size = 4 ^ k) (hv : s.getD v false = true) (hn : 1 ≤ n) (hb : IsBits bits)
    (ht : TblOK tbl (inducedAccessor k s)) (hfE : 2 * n + 3 ≤ fuelE)
    (henc : Gen.encode fuelE (bitsPV bits) (accPV (inducedAccessor k s)) (.int (v : Int)) (.bool false)
      (.int (n : Int)) (tblPV tbl) (.bool false) (.bool vb) = .ok (.tup [.str w, .str c]))
    (he : e.Interior k w.length) (hp : e.Proper w) (hheap : 9 * k ≤ heap)
    (hbad : isWalk (inducedAccessor k s) v (e.apply w) = false)
    (hfR : (e.apply w).length + 2 * n + 3 ≤ fuelR) (hfD : 4 * w.length + 2 * n + 10 ≤ fuelD) :
    ∃ cands st, Gen.repair_dna fuelR (cstr (e.apply w)) (accPV (inducedAccessor k s))
        (.int (v : Int)) (.int (k : Int)) (.str c) (.bool true) (.int (heap : Int)) =
        .ok (repResultPV (cands, st)) ∧
      w ∈ cands ∧ (∀ y ∈ cands, setVt y c.length = .ok c) ∧
      Gen.decode fuelD (cstr w) (.int (bits.length : Int)) (accPV (inducedAccessor k s)) (.int (v : Int))
        (.bool false) (.str c) (tblPV tbl) (.bool vb') = .ok (bitsPV bits) := by
  have hwf := induced_wf k s
  have hlt := induced_lt hs hv
  rw [tie_encode _ tbl v bits false n fuelE vb hwf hlt ht (isBits_le_one hb) hfE] at henc
  obtain ⟨r, henc', hr⟩ := map_ok_inv henc
  rw [encResultPV_pair hr] at henc'
  obtain ⟨hw, hset⟩ := Compose.encode_check hb hn henc'
  have hcl : c.length = n := setVt_length hn hset
  have hcne : c ≠ [] := by
    intro h0; rw [h0] at hcl; simp at hcl; omega
  obtain ⟨cands, st, hrep, hmem, hchk, hdec⟩ := E2E_repair_then_decode k s v tbl bits w c e n heap fuelE hk hs hv
    hn hb henc' he hp hheap hbad
  refine ⟨cands, st, ?_, hmem, hchk, ?_⟩
  · exact repair_of_model (chk := some c) hwf (induced_size k s) hk hlt
      (edit_acgt (isWalk_isAcgt _ w _ hw) hp) (edit_length hk he) (fun c' h' => by cases h'; exact hcne)
      (by simpa [hcl] using hfR) hrep
  · have := tie_decode _ tbl v w bits.length false (some c) fuelD vb' hwf hlt ht
      (fun c' h' => by cases h'; exact hcne) (by simpa [hcl] using hfD)
    rw [hdec] at this
    exact this

/-- the message `01010101` on the GC-balanced graph: `encode` returns `("TCTCTCT", "TAAGC")` (7 symbols);
with `k = 2` an interior edit needs `2 ≤ p` and `p + 4 < 7`, e.g. the substitution of `G` at position 2. -/
example : ∃ cands st, Gen.repair_dna 20 (cstr ((Edit.subst 2 'G').apply "TCTCTCT".toList))
      (accPV (inducedAccessor 2 gcMask)) (.int 1) (.int 2) (.str "TAAGC".toList) (.bool true) (.int 18) =
      .ok (repResultPV (cands, st)) ∧
    "TCTCTCT".toList ∈ cands ∧ (∀ y ∈ cands, setVt y "TAAGC".toList.length = .ok "TAAGC".toList) ∧
    Gen.decode 48 (cstr "TCTCTCT".toList) (.int 8) (accPV (inducedAccessor 2 gcMask)) (.int 1)
      (.bool false) (.str "TAAGC".toList) PV.none (.bool false) = .ok (bitsPV [0, 1, 0, 1, 0, 1, 0, 1]) :=
  gen_E2E_repair_then_decode 2 gcMask 1 none [0, 1, 0, 1, 0, 1, 0, 1] _ _ (.subst 2 'G') 5 18 200 20 48 false false
    (by decide) (by decide) (by decide) (by decide) msg_bits (tblOK_none _) (by decide) gc_encode_normal
    (by simp [Edit.Interior, Edit.pos]) ⟨by decide, by decide⟩ (by decide) (by decide +kernel) (by decide)
    (by decide)

end Dsw.Tie
