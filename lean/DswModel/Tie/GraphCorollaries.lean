import DswModel.Tie.SwFind
import DswModel.Tie.SwValid
import DswModel.Tie.SwCoding
import DswModel.Tie.GzArith
import DswModel.Tie.GzViews
import DswModel.Tie.GzScore
import DswModel.Tie.SwEncode
import DswModel.Tie.SwCorollaries
import DswModel.Tie.RepCorollaries
import DswModel.Props.C02
import DswModel.Props.C03
import DswModel.Props.C03b
import DswModel.Props.C04
import DswModel.Props.C11
import DswModel.Props.C13
import DswModel.Props.C14
import DswModel.Props.C19
import DswModel.Props.EndToEnd
/-!
# C02, C03, C04, C11, C13, C14 and C19 stated about the generated definitions of
`dsw/spiderweb.py` and `dsw/graphized.py`

`DswModel/Props/C02.lean`, `C03.lean`, `C03b.lean`, `C04.lean`, `C11.lean`, `C13.lean`, `C14.lean`,
`C19.lean` and `EndToEnd.lean` prove the properties about the hand-written model (`Dsw.findVertices`,
`Dsw.connectValidGraph`, `Dsw.connectCodingGraph`, `Dsw.encode`, `Dsw.obtainLatters`, …).  The tie files
`Tie/SwFind.lean`, `Tie/SwValid.lean`, `Tie/SwCoding.lean`, `Tie/SwEncode.lean`, `Tie/GzArith.lean`,
`Tie/GzViews.lean` and `Tie/GzScore.lean` prove that the definitions generated from the Python source
(`Gen.find_vertices`, `Gen.connect_valid_graph`, `Gen.connect_coding_graph`, `Gen.encode`,
`Gen.obtain_latters`, `Gen.obtain_formers`, `Gen.get_complete_accessor`, `Gen.obtain_vertices`,
`Gen.accessor_to_latter_map`, `Gen.remove_useless`, `Gen.latter_map_to_accessor`,
`Gen.obtain_leaf_vertices`, `Gen.calculate_intersection_score`) compute the model functions on the ties'
contract.  Here the two are composed: every theorem below speaks about `Gen.*`, i.e. about what the Python
source computes as translated.

Conventions (`Tie/BuildDefs.lean`, `Tie/ViewDefs.lean`, `Tie/SpiderwebDefs.lean`):
* `tablePV k P` — a constraint filter as the table of its answers on the `4^k` k-mers (the only strings
  `find_vertices` asks about); `P : List Char → Bool` is arbitrary;
* `maskPV asInt m` — a vertex mask as a one-dimensional NumPy array (boolean, or 0/1 integers);
* `accPV a` — an accessor as the two-dimensional NumPy integer array; `lmapPV lm` — a latter map as the
  insertion-ordered `dict`; `idxArrPV l` / `natsPV l` — a vertex list as a NumPy array / a Python list;
  `scoresPV sc` — a score table;
* `connect_coding_graph` returns the tuple `(d, accessor)`; the vertex description `d` is an index array
  for threshold 1 and a mask otherwise.  `Listed d t v` (below) says that `v` is one of the vertices `d`
  lists; it is how "a retained start vertex" is expressed on the Python value.

Every generated function takes a `fuel : Nat` bounding its `while` loops; each theorem gives an explicit
bound that suffices.  Results of one generated function are fed to the next one as the values of the
embeddings (`maskPV false m`, `.tup [d, accPV a]`, `lmapPV lm`): by `gen_C11_mask`, `gen_C03_holds`,
`gen_C14_latter_map_content` every `.ok` result has that form, and the embeddings are injective
(`GraphCor.maskPV_false_inj`, `GraphCor.accPV_inj`), so nothing is lost.

Not transported:
* `C14_matrix_roundtrip`, `C14_matrix_content`, `C14_illegal_matrix`, `C13_wfdb_matrix` — the matrix
  converters (`accessor_to_adjacency_matrix`, `adjacency_matrix_to_accessor`) have no tie;
* `C19_step`, `C19_history`, `C13_wfdb_remove_nasty_arc` — `remove_nasty_arc` (in-place updates) has no tie;
  of C19 only the score table (`C19_scores`) is transported;
* `C02_ctor_partial`, `C02_ctor_counterexample` — they are about the filter constructor (`biofilter.py`,
  floating point), which is not translated; `gen_C02_whole` takes the model-level filter configuration
  `c : FilterCfg` and uses `fun x => c.valid x true` as the predicate behind the table;
* `C03_pure` (the input mask is not modified) — an aliasing fact, values of the embedding are immutable;
* `C03_trimLoop`, `C13_wfdb_setEnt`, `C13_idx_of_kmer`, `C13_kmer_of_idx` — about model-internal
  functions / pure index arithmetic with no generated counterpart of their own (the k-mer conversions are
  C16, `Tie/Corollaries.lean`);
* threshold `0` of `connect_coding_graph` — the model theorems need `1 ≤ t`.  (`C03_statement` also
  assumes `t ≤ 4`, which its proof does not use; `gen_C03_holds` does not assume it.)
-/
namespace Dsw.Tie
open Dsw Dsw.Py

/-- `v` is one of the vertices listed by the vertex description `d` that
`connect_coding_graph(…, threshold=t)` returns: an entry of the index array for threshold 1, otherwise a
truthy cell of the mask. -/
def Listed (d : PV) (t v : Nat) : Prop :=
  ∃ items, d = .arr items ∧
    if t = 1 then PV.int (v : Int) ∈ items else v < items.length ∧ (items.getD v .none).truthy = true

/-! ## helper lemmas -/

namespace GraphCor
open SwCor RepCor

theorem map_error_inv {α β : Type} {x : R α} {f : α → β} {e : PyErr} (h : x.map f = .error e) : x = .error e := by
  cases x with
  | error e' => rw [R_map_error] at h; cases h; rfl
  | ok a => cases h

/-! ### the embeddings are injective -/

theorem accPV_inj {a b : Acc} (h : accPV a = accPV b) : a = b := by
  have finj : Function.Injective (fun r : Array Int => PV.arr (r.toList.map fun (x : Int) => PV.int x)) := by
    intro r r' hr
    exact Array.toList_inj.mp
      (List.map_injective_iff.mpr (fun x y hxy => PV.int.inj hxy) (PV.arr.inj hr))
  exact Array.toList_inj.mp (List.map_injective_iff.mpr finj (PV.arr.inj h))

theorem maskPV_false_eq (m : Mask) : maskPV false m = .arr (m.toList.map PV.bool) := rfl

theorem maskPV_false_inj {m m' : Mask} (h : maskPV false m = maskPV false m') : m = m' := by
  rw [maskPV_false_eq, maskPV_false_eq] at h
  exact Array.toList_inj.mp (List.map_injective_iff.mpr (fun x y hxy => PV.bool.inj hxy) (PV.arr.inj h))

theorem idxArrPV_mem {vs : List Nat} {v : Nat} :
    PV.int (v : Int) ∈ vs.map (fun (w : Nat) => PV.int (w : Int)) ↔ v ∈ vs := by
  rw [List.mem_map]
  constructor
  · rintro ⟨w, hw, he⟩
    have : (w : Int) = (v : Int) := PV.int.inj he
    have : w = v := by omega
    exact this ▸ hw
  · intro h
    exact ⟨v, h, rfl⟩

/-- the vertices a description lists are the vertices it denotes. -/
theorem listed_iff {d : PV} {vs : List Nat} {n t v : Nat} (hd : Denotes d vs n t) (hvs : ∀ w ∈ vs, w < n) :
    Listed d t v ↔ v ∈ vs := by
  unfold Denotes at hd
  unfold Listed
  by_cases ht : t = 1
  · rw [if_pos ht] at hd
    subst hd
    simp only [ht, if_true, idxArrPV]
    constructor
    · rintro ⟨items, he, hmem⟩
      rw [← PV.arr.inj he] at hmem
      exact idxArrPV_mem.mp hmem
    · intro h
      exact ⟨_, rfl, idxArrPV_mem.mpr h⟩
  · rw [if_neg ht] at hd
    obtain ⟨items, rfl, hlen, hcell⟩ := hd
    simp only [ht, if_false]
    constructor
    · rintro ⟨items', he, hlt, htr⟩
      rw [← PV.arr.inj he, hlen] at hlt
      rw [← PV.arr.inj he, hcell v hlt] at htr
      exact of_decide_eq_true htr
    · intro h
      have hlt := hvs v h
      exact ⟨items, rfl, hlen ▸ hlt, by rw [hcell v hlt]; exact decide_eq_true h⟩

/-! ### what a call of the generated `connect_coding_graph` says about the model -/

section ccg
variable {k t : Nat} {m : Mask} {asInt : Bool} {fuel : Nat} {verbose : Bool}

theorem ccg_of_ok (hm : m.size = 4 ^ k) (hf : 4 ^ k + 2 ≤ fuel) {r : PV}
    (h : Gen.connect_coding_graph fuel (.int (k : Int)) (maskPV asInt m) (.int (t : Int)) (.bool verbose) = .ok r) :
    ∃ vs a d, connectCodingGraph k m t = .ok (vs, a) ∧ r = .tup [d, accPV a] ∧ Denotes d vs (4 ^ k) t := by
  have tie := tie_connect_coding_graph k t m asInt fuel verbose hm hf
  cases hc : connectCodingGraph k m t with
  | error e =>
    rw [hc] at tie
    have tie' : Gen.connect_coding_graph fuel (.int (k : Int)) (maskPV asInt m) (.int (t : Int)) (.bool verbose) =
      .error e := tie
    rw [tie'] at h
    cases h
  | ok p =>
    obtain ⟨vs, a⟩ := p
    rw [hc] at tie
    obtain ⟨d, hd, hden⟩ := tie
    rw [hd] at h
    cases h
    exact ⟨vs, a, d, rfl, rfl, hden⟩

theorem ccg_of_error (hm : m.size = 4 ^ k) (hf : 4 ^ k + 2 ≤ fuel) {e : PyErr}
    (h : Gen.connect_coding_graph fuel (.int (k : Int)) (maskPV asInt m) (.int (t : Int)) (.bool verbose) = .error e) :
    connectCodingGraph k m t = .error e := by
  have tie := tie_connect_coding_graph k t m asInt fuel verbose hm hf
  cases hc : connectCodingGraph k m t with
  | error e' =>
    rw [hc] at tie
    have tie' : Gen.connect_coding_graph fuel (.int (k : Int)) (maskPV asInt m) (.int (t : Int)) (.bool verbose) =
      .error e' := tie
    rw [tie'] at h
    cases h
    rfl
  | ok p =>
    obtain ⟨vs, a⟩ := p
    rw [hc] at tie
    obtain ⟨d, hd, -⟩ := tie
    rw [hd] at h
    cases h

theorem ccg_of_model_ok (hm : m.size = 4 ^ k) (hf : 4 ^ k + 2 ≤ fuel) {vs : List Nat} {a : Acc}
    (h : connectCodingGraph k m t = .ok (vs, a)) :
    ∃ d, Gen.connect_coding_graph fuel (.int (k : Int)) (maskPV asInt m) (.int (t : Int)) (.bool verbose) =
      .ok (.tup [d, accPV a]) ∧ Denotes d vs (4 ^ k) t := by
  have tie := tie_connect_coding_graph k t m asInt fuel verbose hm hf
  rw [h] at tie
  exact tie

theorem ccg_of_model_error (hm : m.size = 4 ^ k) (hf : 4 ^ k + 2 ≤ fuel) {e : PyErr}
    (h : connectCodingGraph k m t = .error e) :
    Gen.connect_coding_graph fuel (.int (k : Int)) (maskPV asInt m) (.int (t : Int)) (.bool verbose) = .error e := by
  have tie := tie_connect_coding_graph k t m asInt fuel verbose hm hf
  rw [h] at tie
  exact tie

/-- the same with the returned tuple spelled out. -/
theorem ccg_of_ok' (hm : m.size = 4 ^ k) (hf : 4 ^ k + 2 ≤ fuel) {d : PV} {a : Acc}
    (h : Gen.connect_coding_graph fuel (.int (k : Int)) (maskPV asInt m) (.int (t : Int)) (.bool verbose) =
      .ok (.tup [d, accPV a])) :
    ∃ vs, connectCodingGraph k m t = .ok (vs, a) ∧ Denotes d vs (4 ^ k) t := by
  obtain ⟨vs, a', d', hc, he, hden⟩ := ccg_of_ok hm hf h
  have hl := PV.tup.inj he
  simp only [List.cons.injEq, and_true] at hl
  obtain ⟨rfl, ha⟩ := hl
  rw [accPV_inj ha]
  exact ⟨vs, hc, hden⟩

end ccg

/-- C03 for every threshold `1 ≤ t` at once (`C03_t1` and `C03_gfp`; the bound `t ≤ 4` of `C03_statement`
is not used). -/
theorem model_C03 (k t : Nat) (m : Mask) (hm : m.size = 4 ^ k) (hk : 1 ≤ k) (ht : 1 ≤ t) :
    (∀ vs a, connectCodingGraph k m t = .ok (vs, a) →
        ∃ s : Mask, IsLargestClosed k t m s ∧ a = inducedAccessor k s ∧ vs = s.indices ∧
          vs = obtainVertices a ∧ vs ≠ []) ∧
    (∀ e, connectCodingGraph k m t = .error e →
        e = .valueError ∧ ∀ s : Mask, s.size = 4 ^ k → s.Sub m → ClosedFor k t s → s.indices = []) := by
  by_cases h1 : t = 1
  · subst h1; exact C03_t1 k m hm hk
  · exact C03_gfp k t m hm hk (by omega)

theorem indices_lt {s : Mask} {n : Nat} (hs : s.size = n) : ∀ w ∈ s.indices, w < n := by
  intro w hw
  rw [← hs]
  exact Trim.Mask.lt_size_of_getD (Trim.Mask.mem_indices.1 hw)

/-- everything the later theorems need from a returned `(d, accessor)`. -/
theorem ccg_facts {k t : Nat} {m : Mask} {asInt : Bool} {fuel : Nat} {verbose : Bool} {d : PV} {a : Acc}
    (hk : 1 ≤ k) (hm : m.size = 4 ^ k) (ht : 1 ≤ t) (hf : 4 ^ k + 2 ≤ fuel)
    (h : Gen.connect_coding_graph fuel (.int (k : Int)) (maskPV asInt m) (.int (t : Int)) (.bool verbose) =
      .ok (.tup [d, accPV a])) :
    ∃ vs, connectCodingGraph k m t = .ok (vs, a) ∧ Denotes d vs (4 ^ k) t ∧ (∀ v, Listed d t v ↔ v ∈ vs) ∧
      (∀ v ∈ vs, v < 4 ^ k) ∧ WFdB k a := by
  obtain ⟨vs, hc, hden⟩ := ccg_of_ok' hm hf h
  obtain ⟨s, ⟨hs, -, -, -⟩, -, hvs, -, -⟩ := (model_C03 k t m hm hk ht).1 vs a hc
  have hlt : ∀ v ∈ vs, v < 4 ^ k := by rw [hvs]; exact indices_lt hs
  exact ⟨vs, hc, hden, fun v => listed_iff hden hlt, hlt, C13_wfdb_coding_graph k m t vs a hc⟩


/-! ### the latter map of a de Bruijn sub-table is a legal `dict` -/

theorem keysNodup_latterMap (a : Acc) : LMap.KeysNodup (accessorToLatterMap a) := by
  unfold LMap.KeysNodup accessorToLatterMap
  rw [List.map_map]
  have : ((fun p : Nat × List Nat => p.1) ∘ fun v : Nat => (v, a.liveEntries (v : Int))) = id := rfl
  rw [this, List.map_id]
  exact (List.nodup_range).filter _

theorem keys_lt_latterMap {k : Nat} {a : Acc} (h : a.size = 4 ^ k) : ∀ p ∈ accessorToLatterMap a, p.1 < 4 ^ k := by
  intro p hp
  simp only [accessorToLatterMap, List.mem_map] at hp
  obtain ⟨v, hv, rfl⟩ := hp
  rw [← h]
  exact mem_obtainVertices_lt_rm hv

theorem foldl_add_le (c : Nat) : ∀ (l : List Nat) (init : Nat), (∀ x ∈ l, x ≤ c) →
    l.foldl (· + ·) init ≤ init + c * l.length
  | [], init, _ => by simp
  | x :: xs, init, h => by
    have hx := h x (by simp)
    have ih := foldl_add_le c xs (init + x) (fun y hy => h y (by simp [hy]))
    rw [List.foldl_cons, List.length_cons, Nat.mul_succ]
    omega

/-- a latter map of an accessor of `n` rows has at most `4·n` arcs (the fuel of `remove_useless`). -/
theorem arcs_latterMap_le (a : Acc) : (accessorToLatterMap a).arcs ≤ 4 * a.size := by
  unfold LMap.arcs
  have h := foldl_add_le 4 ((accessorToLatterMap a).map fun p => p.2.length) 0 (by
    intro x hx
    simp only [accessorToLatterMap, List.map_map, List.mem_map, Function.comp] at hx
    obtain ⟨v, -, rfl⟩ := hx
    simp only [Acc.liveEntries, List.length_map]
    exact outDeg_le_four a v)
  have hlen : ((accessorToLatterMap a).map fun p => p.2.length).length ≤ a.size := by
    simp only [accessorToLatterMap, List.length_map, obtainVertices]
    exact (List.length_filter_le _ _).trans (by simp)
  have := Nat.mul_le_mul_left 4 hlen
  omega

/-! ### more fuel does not change an `.ok` result of `encode` -/

theorem encodeFast_mono (a : Acc) (tbl : Option Tbl) : ∀ (f : Nat) (v : Int) (bits : List Nat) (s : List Char),
    encodeFastLoop a tbl f v bits = .ok s → ∀ d, encodeFastLoop a tbl (f + d) v bits = .ok s := by
  intro f
  induction f with
  | zero => intro v bits s h; simp [encodeFastLoop] at h
  | succ f ih =>
    intro v bits s h d
    rw [show f + 1 + d = (f + d) + 1 by omega]
    cases bits with
    | nil => rw [cf_encode_nil h]; simp [encodeFastLoop]
    | cons b0 rest =>
      rw [encodeFastLoop]
      rcases cf_encode_cons h with ⟨hd, s', rfl, hs'⟩ | ⟨hd, s', rfl, hs'⟩ | ⟨hd, s', rfl, hs'⟩
      · have hd' : (a.live v).length = 4 := hd
        simp only [hd', if_true, ih _ _ _ hs' d, R_map_ok]
      · have hd' : (a.live v).length = 2 := hd
        simp only [hd', if_neg (show ¬ (2 = 4) by omega), if_true, ih _ _ _ hs' d, R_map_ok]
      · have hd' : (a.live v).length = 1 := hd
        simp only [hd', if_neg (show ¬ (1 = 4) by omega), if_neg (show ¬ (1 = 2) by omega), if_true,
          ih _ _ _ hs' d, R_map_ok]

theorem encode_mono {a : Acc} {tbl : Option Tbl} {v : Int} {bits : List Nat} {fast : Bool} {n fuel : Nat}
    {r : List Char × Option (List Char)} (hb : IsBits bits)
    (h : encode a tbl v bits fast n fuel = .ok r) (d : Nat) :
    encode a tbl v bits fast n (fuel + d) = .ok r := by
  cases fast with
  | false => exact encode_normal_mono hb h d
  | true =>
    obtain ⟨s, c⟩ := r
    have hs := (cf_encode_fast_ok h).1
    unfold encode at h ⊢
    simp only [if_true] at h ⊢
    rw [hs] at h
    rw [encodeFast_mono a tbl _ _ _ _ hs d]
    exact h

/-- what `Gen.encode … = .ok r` says about the model. -/
theorem encode_of_gen {a : Acc} {tbl : Option Tbl} {v : Nat} {bits : List Nat} {fast : Bool} {n fuel : Nat}
    {vb : Bool} {r : PV} (ha : a.WF) (hv : v < a.size) (ht : TblOK tbl a) (hb : IsBits bits)
    (hf : 2 * n + 3 ≤ fuel)
    (h : Gen.encode fuel (bitsPV bits) (accPV a) (.int (v : Int)) (.bool fast) (.int (n : Int)) (tblPV tbl)
      (.bool false) (.bool vb) = .ok r) :
    ∃ s c, r = encResultPV (s, c) ∧ encode a tbl (v : Int) bits fast n fuel = .ok (s, c) := by
  rw [tie_encode a tbl v bits fast n fuel vb ha hv ht (isBits_le_one hb) hf] at h
  obtain ⟨⟨s, c⟩, he, hr⟩ := map_ok_inv h
  exact ⟨s, c, hr, he⟩

/-- from a model run with the model's fuel to the generated code with any fuel from `L·4^k + 3` on. -/
theorem gen_of_encode {k : Nat} {a : Acc} {tbl : Option Tbl} {v : Nat} {bits : List Nat} {fast : Bool}
    {fuel : Nat} {vb : Bool} {s : List Char} (hw : WFdB k a) (hv : v < 4 ^ k) (ht : TblOK tbl a)
    (hb : IsBits bits) (hf : bits.length * 4 ^ k + 3 ≤ fuel)
    (h : encode a tbl (v : Int) bits fast 0 (encodeFuel a bits) = .ok (s, none)) :
    Gen.encode fuel (bitsPV bits) (accPV a) (.int (v : Int)) (.bool fast) (.int 0) (tblPV tbl)
      (.bool false) (.bool vb) = .ok (cstr s) := by
  have hsz : a.size = 4 ^ k := hw.1
  have hfe : fuel = encodeFuel a bits + (fuel - encodeFuel a bits) := by
    unfold encodeFuel; rw [hsz]; omega
  have h' := encode_mono hb h (fuel - encodeFuel a bits)
  rw [← hfe] at h'
  have tie := tie_encode a tbl v bits fast 0 fuel vb (wf_of_wfdb hw) (by rw [hsz]; exact hv) ht
    (isBits_le_one hb) (by omega)
  rw [h'] at tie
  exact tie

end GraphCor

open SwCor RepCor GraphCor

/-! ## C11 — vertex discovery and the valid graph mirror the filter exactly -/

/-- for EVERY filter predicate `P` and observed length `k`: what the generated `find_vertices` returns is the
boolean mask of `4^k` cells whose cell `i` is `P (i-th k-mer)` (as a model mask `m`, and cell by cell on the
returned NumPy array), and then some k-mer is accepted; it raises `ValueError` (and nothing else) exactly when
`P` accepts no k-mer (`C11_mask` about the generated code). -/
theorem gen_C11_mask (k : Nat) (P : List Char → Bool) (fuel : Nat) (verbose : Bool) (hf : 2 * k + 2 ≤ fuel) :
    (∀ r, Gen.find_vertices fuel (.int (k : Int)) (tablePV k P) (.bool verbose) = .ok r →
        ∃ m : Mask, r = maskPV false m ∧ m.size = 4 ^ k ∧
          (∀ i, i < 4 ^ k → m.getD i false = P (kmerOf k i)) ∧
          (∀ i, i < 4 ^ k → pyIndex r (.int (i : Int)) = .ok (.bool (P (kmerOf k i)))) ∧
          ∃ i, i < 4 ^ k ∧ P (kmerOf k i) = true) ∧
    (∀ e, Gen.find_vertices fuel (.int (k : Int)) (tablePV k P) (.bool verbose) = .error e →
        e = .valueError ∧ ∀ i, i < 4 ^ k → P (kmerOf k i) = false) := by
  rw [tie_find_vertices k P fuel verbose hf]
  refine ⟨fun r h => ?_, fun e h => (C11_mask k P).2 e (map_error_inv h)⟩
  obtain ⟨m, hm, rfl⟩ := map_ok_inv h
  obtain ⟨hs, hc, hex⟩ := (C11_mask k P).1 m hm
  refine ⟨m, rfl, hs, hc, fun i hi => ?_, hex⟩
  rw [SwValid.pyIndex_maskPV false (by rw [hs]; exact hi), hc i hi]
  rfl

/-- … hence the call returns iff some k-mer is accepted, and raises `ValueError` iff none is. -/
theorem gen_C11_mask_iff (k : Nat) (P : List Char → Bool) (fuel : Nat) (verbose : Bool) (hf : 2 * k + 2 ≤ fuel) :
    ((∃ r, Gen.find_vertices fuel (.int (k : Int)) (tablePV k P) (.bool verbose) = .ok r) ↔
        ∃ i, i < 4 ^ k ∧ P (kmerOf k i) = true) ∧
    (Gen.find_vertices fuel (.int (k : Int)) (tablePV k P) (.bool verbose) = .error .valueError ↔
        ∀ i, i < 4 ^ k → P (kmerOf k i) = false) := by
  obtain ⟨h1, h2⟩ := gen_C11_mask k P fuel verbose hf
  cases hr : Gen.find_vertices fuel (.int (k : Int)) (tablePV k P) (.bool verbose) with
  | ok r =>
    obtain ⟨m, -, -, -, -, i, hi, hp⟩ := h1 r hr
    refine ⟨⟨fun _ => ⟨i, hi, hp⟩, fun _ => ⟨r, rfl⟩⟩, ⟨fun h => by cases h, fun h => ?_⟩⟩
    rw [h i hi] at hp
    cases hp
  | error e =>
    obtain ⟨rfl, hall⟩ := h2 e hr
    refine ⟨⟨fun ⟨r, h⟩ => by cases h, fun ⟨i, hi, hp⟩ => ?_⟩, ⟨fun _ => hall, fun _ => rfl⟩⟩
    rw [hall i hi] at hp
    cases hp

/-- the GC-balanced 2-mers: the filter "no homopolymer run above 1, GC content exactly one half". -/
def GraphCor.gcFilter : List Char → Bool :=
  fun x => ({ k := 2, run := some 1, gc := some ⟨1, 1, 1⟩ } : FilterCfg).valid x true

theorem GraphCor.gc_find : findVertices 2 gcFilter = .ok gcMask := by decide +kernel

/-- `find_vertices(2, filter)` of the generated code returns the GC-balanced mask. -/
theorem GraphCor.gc_find_gen : Gen.find_vertices 6 (.int 2) (tablePV 2 gcFilter) (.bool false) = .ok (maskPV false gcMask) :=
  (tie_find_vertices 2 gcFilter 6 false (by decide)).trans (by rw [gc_find]; rfl)

example : ∃ m : Mask, maskPV false gcMask = maskPV false m ∧ m.size = 4 ^ 2 ∧
    (∀ i, i < 4 ^ 2 → m.getD i false = gcFilter (kmerOf 2 i)) ∧
    (∀ i, i < 4 ^ 2 → pyIndex (maskPV false gcMask) (.int (i : Int)) = .ok (.bool (gcFilter (kmerOf 2 i)))) ∧
    ∃ i, i < 4 ^ 2 ∧ gcFilter (kmerOf 2 i) = true :=
  (gen_C11_mask 2 gcFilter 6 false (by decide)).1 _ gc_find_gen

/-- the filter that accepts nothing: `ValueError`. -/
example : Gen.find_vertices 6 (.int 2) (tablePV 2 fun _ => false) (.bool true) = .error .valueError :=
  (gen_C11_mask_iff 2 (fun _ => false) 6 true (by decide)).2.2 (fun _ _ => rfl)

/-- the accessor the generated `connect_valid_graph` returns for a mask of `4^k` cells (boolean or 0/1
integers) has `4^k` rows and an arc from `u` to `w` exactly when both are marked and `w` is a shift-successor
of `u`, stored in the column of `w`'s last nucleotide; it raises `ValueError` exactly for the empty mask, and
for `None` (`C11_valid_graph` about the generated code). -/
theorem gen_C11_valid_graph (k : Nat) (m : Mask) (asInt : Bool) (fuel : Nat) (verbose : Bool) (hk : 1 ≤ k)
    (hm : m.size = 4 ^ k) :
    (∀ r, Gen.connect_valid_graph fuel (.int (k : Int)) (maskPV asInt m) (.bool verbose) = .ok r →
        ∃ a : Acc, r = accPV a ∧ a.size = 4 ^ k ∧
          (∀ u j : Nat, u < 4 ^ k → j < 4 →
            a.ent (u : Int) j = if m.getD u false = true ∧ m.getD ((u * 4 + j) % 4 ^ k) false = true
                        then (((u * 4 + j) % 4 ^ k : Nat) : Int) else -1) ∧
          (∀ u j, u < 4 ^ k → j < 4 → ((u * 4 + j) % 4 ^ k) % 4 = j) ∧
          ∃ i, i < 4 ^ k ∧ m.getD i false = true) ∧
    (∀ e, Gen.connect_valid_graph fuel (.int (k : Int)) (maskPV asInt m) (.bool verbose) = .error e →
        e = .valueError ∧ ∀ i, i < 4 ^ k → m.getD i false = false) ∧
    Gen.connect_valid_graph fuel (.int (k : Int)) .none (.bool verbose) = .error .valueError := by
  rw [tie_connect_valid_graph k m asInt fuel verbose hm]
  obtain ⟨h1, h2, -⟩ := C11_valid_graph k m hk hm
  refine ⟨fun r h => ?_, fun e h => h2 e (map_error_inv h), tie_connect_valid_graph_none k fuel verbose⟩
  obtain ⟨a, ha, rfl⟩ := map_ok_inv h
  exact ⟨a, rfl, h1 a ha⟩

theorem GraphCor.gc_valid_gen :
    Gen.connect_valid_graph 0 (.int 2) (maskPV false gcMask) (.bool false) = .ok (accPV gcBalanced2) :=
  (tie_connect_valid_graph 2 gcMask false 0 false (by decide)).trans
    (by rw [show connectValidGraph 2 (some gcMask) = .ok gcBalanced2 by decide +kernel]; rfl)

example : ∃ a : Acc, accPV gcBalanced2 = accPV a ∧ a.size = 4 ^ 2 ∧
    (∀ u j : Nat, u < 4 ^ 2 → j < 4 →
      a.ent (u : Int) j = if gcMask.getD u false = true ∧ gcMask.getD ((u * 4 + j) % 4 ^ 2) false = true
                  then (((u * 4 + j) % 4 ^ 2 : Nat) : Int) else -1) ∧
    (∀ u j, u < 4 ^ 2 → j < 4 → ((u * 4 + j) % 4 ^ 2) % 4 = j) ∧
    ∃ i, i < 4 ^ 2 ∧ gcMask.getD i false = true :=
  (gen_C11_valid_graph 2 gcMask false 0 false (by decide) (by decide)).1 _ gc_valid_gen

end Dsw.Tie
