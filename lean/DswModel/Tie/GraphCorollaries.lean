import DswModel.Tie.SwFind
import DswModel.Tie.SwValid
import DswModel.Tie.SwCoding
import DswModel.Tie.GzArith
import DswModel.Tie.GzViews
import DswModel.Tie.GzScore
import DswModel.Tie.SwEncode
import DswModel.Tie.SwCorollaries
import DswModel.Tie.RepCorollaries
import DswModel.Props.C02
import DswModel.Props.C03
import DswModel.Props.C03b
import DswModel.Props.C04
import DswModel.Props.C11
import DswModel.Props.C13
import DswModel.Props.C14
import DswModel.Props.C19
import DswModel.Props.EndToEnd
/-!
# C02, C03, C04, C11, C13, C14 and C19 stated about the generated definitions of
`dsw/spiderweb.py` and `dsw/graphized.py`

`DswModel/Props/C02.lean`, `C03.lean`, `C03b.lean`, `C04.lean`, `C11.lean`, `C13.lean`, `C14.lean`,
`C19.lean` and `EndToEnd.lean` prove the properties about the hand-written model (`Dsw.findVertices`,
`Dsw.connectValidGraph`, `Dsw.connectCodingGraph`, `Dsw.encode`, `Dsw.obtainLatters`, …).  The tie files
`Tie/SwFind.lean`, `Tie/SwValid.lean`, `Tie/SwCoding.lean`, `Tie/SwEncode.lean`, `Tie/GzArith.lean`,
`Tie/GzViews.lean` and `Tie/GzScore.lean` prove that the definitions generated from the Python source
(`Gen.find_vertices`, `Gen.connect_valid_graph`, `Gen.connect_coding_graph`, `Gen.encode`,
`Gen.obtain_latters`, `Gen.obtain_formers`, `Gen.get_complete_accessor`, `Gen.obtain_vertices`,
`Gen.accessor_to_latter_map`, `Gen.remove_useless`, `Gen.latter_map_to_accessor`,
`Gen.obtain_leaf_vertices`, `Gen.calculate_intersection_score`) compute the model functions on the ties'
contract.  Here the two are composed: every theorem below speaks about `Gen.*`, i.e. about what the Python
source computes as translated.

Conventions (`Tie/BuildDefs.lean`, `Tie/ViewDefs.lean`, `Tie/SpiderwebDefs.lean`):
* `tablePV k P` — a constraint filter as the table of its answers on the `4^k` k-mers (the only strings
  `find_vertices` asks about); `P : List Char → Bool` is arbitrary;
* `maskPV asInt m` — a vertex mask as a one-dimensional NumPy array (boolean, or 0/1 integers);
* `accPV a` — an accessor as the two-dimensional NumPy integer array; `lmapPV lm` — a latter map as the
  insertion-ordered `dict`; `idxArrPV l` / `natsPV l` — a vertex list as a NumPy array / a Python list;
  `scoresPV sc` — a score table;
* `connect_coding_graph` returns the tuple `(d, accessor)`; the vertex description `d` is an index array
  for threshold 1 and a mask otherwise.  `Listed d t v` (below) says that `v` is one of the vertices `d`
  lists; it is how "a retained start vertex" is expressed on the Python value.

Every generated function takes a `fuel : Nat` bounding its `while` loops; each theorem gives an explicit
bound that suffices.  Results of one generated function are fed to the next one as the values of the
embeddings (`maskPV false m`, `.tup [d, accPV a]`, `lmapPV lm`): by `gen_C11_mask`, `gen_C03_holds`,
`gen_C14_latter_map_content` every `.ok` result has that form, and the embeddings are injective
(`GraphCor.maskPV_false_inj`, `GraphCor.accPV_inj`), so nothing is lost.

Not transported:
* `C14_matrix_roundtrip`, `C14_matrix_content`, `C14_illegal_matrix`, `C13_wfdb_matrix` — the matrix
  converters (`accessor_to_adjacency_matrix`, `adjacency_matrix_to_accessor`) have no tie;
* `C19_step`, `C19_history`, `C13_wfdb_remove_nasty_arc` — `remove_nasty_arc` (in-place updates) has no tie;
  of C19 only the score table (`C19_scores`) is transported;
* `C02_ctor_partial`, `C02_ctor_counterexample` — they are about the filter constructor (`biofilter.py`,
  floating point), which is not translated; `gen_C02_whole` takes the model-level filter configuration
  `c : FilterCfg` and uses `fun x => c.valid x true` as the predicate behind the table;
* `C03_pure` (the input mask is not modified) — an aliasing fact, values of the embedding are immutable;
* `C03_trimLoop`, `C13_wfdb_setEnt`, `C13_idx_of_kmer`, `C13_kmer_of_idx` — about model-internal
  functions / pure index arithmetic with no generated counterpart of their own (the k-mer conversions are
  C16, `Tie/Corollaries.lean`);
* threshold `0` of `connect_coding_graph` — the model theorems need `1 ≤ t`.  (`C03_statement` also
  assumes `t ≤ 4`, which its proof does not use; `gen_C03_holds` does not assume it.)
-/
namespace Dsw.Tie
open Dsw Dsw.Py

/-- `v` is one of the vertices listed by the vertex description `d` that
`connect_coding_graph(…, threshold=t)` returns: an entry of the index array for threshold 1, otherwise a
truthy cell of the mask. -/
def Listed (d : PV) (t v : Nat) : Prop :=
  ∃ items, d = .arr items ∧
    if t = 1 then PV.int (v : Int) ∈ items else v < items.length ∧ (items.getD v .none).truthy = true

/-! ## helper lemmas -/

namespace GraphCor
open SwCor RepCor

theorem map_error_inv {α β : Type} {x : R α} {f : α → β} {e : PyErr} (h : x.map f = .error e) : x = .error e := by
  cases x with
  | error e' => rw [R_map_error] at h; cases h; rfl
  | ok a => cases h

/-! ### the embeddings are injective -/

theorem accPV_inj {a b : Acc} (h : accPV a = accPV b) : a = b := by
  have finj : Function.Injective (fun r : Array Int => PV.arr (r.toList.map fun (x : Int) => PV.int x)) := by
    intro r r' hr
    exact Array.toList_inj.mp
      (List.map_injective_iff.mpr (fun x y hxy => PV.int.inj hxy) (PV.arr.inj hr))
  exact Array.toList_inj.mp (List.map_injective_iff.mpr finj (PV.arr.inj h))

theorem maskPV_false_eq (m : Mask) : maskPV false m = .arr (m.toList.map PV.bool) := rfl

theorem maskPV_false_inj {m m' : Mask} (h : maskPV false m = maskPV false m') : m = m' := by
  rw [maskPV_false_eq, maskPV_false_eq] at h
  exact Array.toList_inj.mp (List.map_injective_iff.mpr (fun x y hxy => PV.bool.inj hxy) (PV.arr.inj h))

theorem idxArrPV_mem {vs : List Nat} {v : Nat} :
    PV.int (v : Int) ∈ vs.map (fun (w : Nat) => PV.int (w : Int)) ↔ v ∈ vs := by
  rw [List.mem_map]
  constructor
  · rintro ⟨w, hw, he⟩
    have : (w : Int) = (v : Int) := PV.int.inj he
    have : w = v := by omega
    exact this ▸ hw
  · intro h
    exact ⟨v, h, rfl⟩

/-- the vertices a description lists are the vertices it denotes. -/
theorem listed_iff {d : PV} {vs : List Nat} {n t v : Nat} (hd : Denotes d vs n t) (hvs : ∀ w ∈ vs, w < n) :
    Listed d t v ↔ v ∈ vs := by
  unfold Denotes at hd
  unfold Listed
  by_cases ht : t = 1
  · rw [if_pos ht] at hd
    subst hd
    simp only [ht, if_true, idxArrPV]
    constructor
    · rintro ⟨items, he, hmem⟩
      rw [← PV.arr.inj he] at hmem
      exact idxArrPV_mem.mp hmem
    · intro h
      exact ⟨_, rfl, idxArrPV_mem.mpr h⟩
  · rw [if_neg ht] at hd
    obtain ⟨items, rfl, hlen, hcell⟩ := hd
    simp only [ht, if_false]
    constructor
    · rintro ⟨items', he, hlt, htr⟩
      rw [← PV.arr.inj he, hlen] at hlt
      rw [← PV.arr.inj he, hcell v hlt] at htr
      exact of_decide_eq_true htr
    · intro h
      have hlt := hvs v h
      exact ⟨items, rfl, hlen ▸ hlt, by rw [hcell v hlt]; exact decide_eq_true h⟩

/-! ### what a call of the generated `connect_coding_graph` says about the model -/

section ccg
variable {k t : Nat} {m : Mask} {asInt : Bool} {fuel : Nat} {verbose : Bool}

theorem ccg_of_ok (hm : m.size = 4 ^ k) (hf : 4 ^ k + 2 ≤ fuel) {r : PV}
    (h : Gen.connect_coding_graph fuel (.int (k : Int)) (maskPV asInt m) (.int (t : Int)) (.bool verbose) = .ok r) :
    ∃ vs a d, connectCodingGraph k m t = .ok (vs, a) ∧ r = .tup [d, accPV a] ∧ Denotes d vs (4 ^ k) t := by
  have tie := tie_connect_coding_graph k t m asInt fuel verbose hm hf
  cases hc : connectCodingGraph k m t with
  | error e =>
    rw [hc] at tie
    have tie' : Gen.connect_coding_graph fuel (.int (k : Int)) (maskPV asInt m) (.int (t : Int)) (.bool verbose) =
      .error e := tie
    rw [tie'] at h
    cases h
  | ok p =>
    obtain ⟨vs, a⟩ := p
    rw [hc] at tie
    obtain ⟨d, hd, hden⟩ := tie
    rw [hd] at h
    cases h
    exact ⟨vs, a, d, rfl, rfl, hden⟩

theorem ccg_of_error (hm : m.size = 4 ^ k) (hf : 4 ^ k + 2 ≤ fuel) {e : PyErr}
    (h : Gen.connect_coding_graph fuel (.int (k : Int)) (maskPV asInt m) (.int (t : Int)) (.bool verbose) = .error e) :
    connectCodingGraph k m t = .error e := by
  have tie := tie_connect_coding_graph k t m asInt fuel verbose hm hf
  cases hc : connectCodingGraph k m t with
  | error e' =>
    rw [hc] at tie
    have tie' : Gen.connect_coding_graph fuel (.int (k : Int)) (maskPV asInt m) (.int (t : Int)) (.bool verbose) =
      .error e' := tie
    rw [tie'] at h
    cases h
    rfl
  | ok p =>
    obtain ⟨vs, a⟩ := p
    rw [hc] at tie
    obtain ⟨d, hd, -⟩ := tie
    rw [hd] at h
    cases h

theorem ccg_of_model_ok (hm : m.size = 4 ^ k) (hf : 4 ^ k + 2 ≤ fuel) {vs : List Nat} {a : Acc}
    (h : connectCodingGraph k m t = .ok (vs, a)) :
    ∃ d, Gen.connect_coding_graph fuel (.int (k : Int)) (maskPV asInt m) (.int (t : Int)) (.bool verbose) =
      .ok (.tup [d, accPV a]) ∧ Denotes d vs (4 ^ k) t := by
  have tie := tie_connect_coding_graph k t m asInt fuel verbose hm hf
  rw [h] at tie
  exact tie

theorem ccg_of_model_error (hm : m.size = 4 ^ k) (hf : 4 ^ k + 2 ≤ fuel) {e : PyErr}
    (h : connectCodingGraph k m t = .error e) :
    Gen.connect_coding_graph fuel (.int (k : Int)) (maskPV asInt m) (.int (t : Int)) (.bool verbose) = .error e := by
  have tie := tie_connect_coding_graph k t m asInt fuel verbose hm hf
  rw [h] at tie
  exact tie

/-- the same with the returned tuple spelled out. -/
theorem ccg_of_ok' (hm : m.size = 4 ^ k) (hf : 4 ^ k + 2 ≤ fuel) {d : PV} {a : Acc}
    (h : Gen.connect_coding_graph fuel (.int (k : Int)) (maskPV asInt m) (.int (t : Int)) (.bool verbose) =
      .ok (.tup [d, accPV a])) :
    ∃ vs, connectCodingGraph k m t = .ok (vs, a) ∧ Denotes d vs (4 ^ k) t := by
  obtain ⟨vs, a', d', hc, he, hden⟩ := ccg_of_ok hm hf h
  have hl := PV.tup.inj he
  simp only [List.cons.injEq, and_true] at hl
  obtain ⟨rfl, ha⟩ := hl
  rw [accPV_inj ha]
  exact ⟨vs, hc, hden⟩

end ccg

/-- C03 for every threshold `1 ≤ t` at once (`C03_t1` and `C03_gfp`; the bound `t ≤ 4` of `C03_statement`
is not used). -/
theorem model_C03 (k t : Nat) (m : Mask) (hm : m.size = 4 ^ k) (hk : 1 ≤ k) (ht : 1 ≤ t) :
    (∀ vs a, connectCodingGraph k m t = .ok (vs, a) →
        ∃ s : Mask, IsLargestClosed k t m s ∧ a = inducedAccessor k s ∧ vs = s.indices ∧
          vs = obtainVertices a ∧ vs ≠ []) ∧
    (∀ e, connectCodingGraph k m t = .error e →
        e = .valueError ∧ ∀ s : Mask, s.size = 4 ^ k → s.Sub m → ClosedFor k t s → s.indices = []) := by
  by_cases h1 : t = 1
  · subst h1; exact C03_t1 k m hm hk
  · exact C03_gfp k t m hm hk (by omega)

theorem indices_lt {s : Mask} {n : Nat} (hs : s.size = n) : ∀ w ∈ s.indices, w < n := by
  intro w hw
  rw [← hs]
  exact Trim.Mask.lt_size_of_getD (Trim.Mask.mem_indices.1 hw)

/-- everything the later theorems need from a returned `(d, accessor)`. -/
theorem ccg_facts {k t : Nat} {m : Mask} {asInt : Bool} {fuel : Nat} {verbose : Bool} {d : PV} {a : Acc}
    (hk : 1 ≤ k) (hm : m.size = 4 ^ k) (ht : 1 ≤ t) (hf : 4 ^ k + 2 ≤ fuel)
    (h : Gen.connect_coding_graph fuel (.int (k : Int)) (maskPV asInt m) (.int (t : Int)) (.bool verbose) =
      .ok (.tup [d, accPV a])) :
    ∃ vs, connectCodingGraph k m t = .ok (vs, a) ∧ Denotes d vs (4 ^ k) t ∧ (∀ v, Listed d t v ↔ v ∈ vs) ∧
      (∀ v ∈ vs, v < 4 ^ k) ∧ WFdB k a := by
  obtain ⟨vs, hc, hden⟩ := ccg_of_ok' hm hf h
  obtain ⟨s, ⟨hs, -, -, -⟩, -, hvs, -, -⟩ := (model_C03 k t m hm hk ht).1 vs a hc
  have hlt : ∀ v ∈ vs, v < 4 ^ k := by rw [hvs]; exact indices_lt hs
  exact ⟨vs, hc, hden, fun v => listed_iff hden hlt, hlt, C13_wfdb_coding_graph k m t vs a hc⟩


/-! ### the latter map of a de Bruijn sub-table is a legal `dict` -/

theorem keysNodup_latterMap (a : Acc) : LMap.KeysNodup (accessorToLatterMap a) := by
  unfold LMap.KeysNodup accessorToLatterMap
  rw [List.map_map]
  have : ((fun p : Nat × List Nat => p.1) ∘ fun v : Nat => (v, a.liveEntries (v : Int))) = id := rfl
  rw [this, List.map_id]
  exact (List.nodup_range).filter _

theorem keys_lt_latterMap {k : Nat} {a : Acc} (h : a.size = 4 ^ k) : ∀ p ∈ accessorToLatterMap a, p.1 < 4 ^ k := by
  intro p hp
  simp only [accessorToLatterMap, List.mem_map] at hp
  obtain ⟨v, hv, rfl⟩ := hp
  rw [← h]
  exact mem_obtainVertices_lt_rm hv

theorem foldl_add_le (c : Nat) : ∀ (l : List Nat) (init : Nat), (∀ x ∈ l, x ≤ c) →
    l.foldl (· + ·) init ≤ init + c * l.length
  | [], init, _ => by simp
  | x :: xs, init, h => by
    have hx := h x (by simp)
    have ih := foldl_add_le c xs (init + x) (fun y hy => h y (by simp [hy]))
    rw [List.foldl_cons, List.length_cons, Nat.mul_succ]
    omega

/-- a latter map of an accessor of `n` rows has at most `4·n` arcs (the fuel of `remove_useless`). -/
theorem arcs_latterMap_le (a : Acc) : (accessorToLatterMap a).arcs ≤ 4 * a.size := by
  unfold LMap.arcs
  have h := foldl_add_le 4 ((accessorToLatterMap a).map fun p => p.2.length) 0 (by
    intro x hx
    simp only [accessorToLatterMap, List.map_map, List.mem_map, Function.comp] at hx
    obtain ⟨v, -, rfl⟩ := hx
    simp only [Acc.liveEntries, List.length_map]
    exact outDeg_le_four a v)
  have hlen : ((accessorToLatterMap a).map fun p => p.2.length).length ≤ a.size := by
    simp only [accessorToLatterMap, List.length_map, obtainVertices]
    exact (List.length_filter_le _ _).trans (by simp)
  have := Nat.mul_le_mul_left 4 hlen
  omega

/-! ### more fuel does not change an `.ok` result of `encode` -/

theorem encodeFast_mono (a : Acc) (tbl : Option Tbl) : ∀ (f : Nat) (v : Int) (bits : List Nat) (s : List Char),
    encodeFastLoop a tbl f v bits = .ok s → ∀ d, encodeFastLoop a tbl (f + d) v bits = .ok s := by
  intro f
  induction f with
  | zero => intro v bits s h; simp [encodeFastLoop] at h
  | succ f ih =>
    intro v bits s h d
    rw [show f + 1 + d = (f + d) + 1 by omega]
    cases bits with
    | nil => rw [cf_encode_nil h]; simp [encodeFastLoop]
    | cons b0 rest =>
      rw [encodeFastLoop]
      rcases cf_encode_cons h with ⟨hd, s', rfl, hs'⟩ | ⟨hd, s', rfl, hs'⟩ | ⟨hd, s', rfl, hs'⟩
      · have hd' : (a.live v).length = 4 := hd
        simp only [hd', if_true, ih _ _ _ hs' d, R_map_ok]
      · have hd' : (a.live v).length = 2 := hd
        simp only [hd', if_neg (show ¬ (2 = 4) by omega), if_true, ih _ _ _ hs' d, R_map_ok]
      · have hd' : (a.live v).length = 1 := hd
        simp only [hd', if_neg (show ¬ (1 = 4) by omega), if_neg (show ¬ (1 = 2) by omega), if_true,
          ih _ _ _ hs' d, R_map_ok]

theorem encode_mono {a : Acc} {tbl : Option Tbl} {v : Int} {bits : List Nat} {fast : Bool} {n fuel : Nat}
    {r : List Char × Option (List Char)} (hb : IsBits bits)
    (h : encode a tbl v bits fast n fuel = .ok r) (d : Nat) :
    encode a tbl v bits fast n (fuel + d) = .ok r := by
  cases fast with
  | false => exact encode_normal_mono hb h d
  | true =>
    obtain ⟨s, c⟩ := r
    have hs := (cf_encode_fast_ok h).1
    unfold encode at h ⊢
    simp only [if_true] at h ⊢
    rw [hs] at h
    rw [encodeFast_mono a tbl _ _ _ _ hs d]
    exact h

/-- what `Gen.encode … = .ok r` says about the model. -/
theorem encode_of_gen {a : Acc} {tbl : Option Tbl} {v : Nat} {bits : List Nat} {fast : Bool} {n fuel : Nat}
    {vb : Bool} {r : PV} (ha : a.WF) (hv : v < a.size) (ht : TblOK tbl a) (hb : IsBits bits)
    (hf : 2 * n + 3 ≤ fuel)
    (h : Gen.encode fuel (bitsPV bits) (accPV a) (.int (v : Int)) (.bool fast) (.int (n : Int)) (tblPV tbl)
      (.bool false) (.bool vb) = .ok r) :
    ∃ s c, r = encResultPV (s, c) ∧ encode a tbl (v : Int) bits fast n fuel = .ok (s, c) := by
  rw [tie_encode a tbl v bits fast n fuel vb ha hv ht (isBits_le_one hb) hf] at h
  obtain ⟨⟨s, c⟩, he, hr⟩ := map_ok_inv h
  exact ⟨s, c, hr, he⟩

/-- from a model run with the model's fuel to the generated code with any fuel from `L·4^k + 3` on. -/
theorem genEncode_of_model {k : Nat} {a : Acc} {tbl : Option Tbl} {v : Nat} {bits : List Nat} {fast : Bool}
    {fuel : Nat} {vb : Bool} {s : List Char} (hw : WFdB k a) (hv : v < 4 ^ k) (ht : TblOK tbl a)
    (hb : IsBits bits) (hf : bits.length * 4 ^ k + 3 ≤ fuel)
    (h : encode a tbl (v : Int) bits fast 0 (encodeFuel a bits) = .ok (s, none)) :
    Gen.encode fuel (bitsPV bits) (accPV a) (.int (v : Int)) (.bool fast) (.int 0) (tblPV tbl)
      (.bool false) (.bool vb) = .ok (cstr s) := by
  have hsz : a.size = 4 ^ k := hw.1
  have hfe : fuel = encodeFuel a bits + (fuel - encodeFuel a bits) := by
    unfold encodeFuel; rw [hsz]; omega
  have h' := encode_mono hb h (fuel - encodeFuel a bits)
  rw [← hfe] at h'
  have tie := tie_encode a tbl v bits fast 0 fuel vb (wf_of_wfdb hw) (by rw [hsz]; exact hv) ht
    (isBits_le_one hb) (by omega)
  rw [h'] at tie
  exact tie

end GraphCor

open SwCor RepCor GraphCor

/-! ## C11 — vertex discovery and the valid graph mirror the filter exactly -/

/-- for EVERY filter predicate `P` and observed length `k`: what the generated `find_vertices` returns is the
boolean mask of `4^k` cells whose cell `i` is `P (i-th k-mer)` (as a model mask `m`, and cell by cell on the
returned NumPy array), and then some k-mer is accepted; it raises `ValueError` (and nothing else) exactly when
`P` accepts no k-mer (`C11_mask` about the generated code). -/
theorem gen_C11_mask (k : Nat) (P : List Char → Bool) (fuel : Nat) (verbose : Bool) (hf : 2 * k + 2 ≤ fuel) :
    (∀ r, Gen.find_vertices fuel (.int (k : Int)) (tablePV k P) (.bool verbose) = .ok r →
        ∃ m : Mask, r = maskPV false m ∧ m.size = 4 ^ k ∧
          (∀ i, i < 4 ^ k → m.getD i false = P (kmerOf k i)) ∧
          (∀ i : Nat, i < 4 ^ k → pyIndex r (.int (i : Int)) = .ok (.bool (P (kmerOf k i)))) ∧
          ∃ i, i < 4 ^ k ∧ P (kmerOf k i) = true) ∧
    (∀ e, Gen.find_vertices fuel (.int (k : Int)) (tablePV k P) (.bool verbose) = .error e →
        e = .valueError ∧ ∀ i, i < 4 ^ k → P (kmerOf k i) = false) := by
  rw [tie_find_vertices k P fuel verbose hf]
  refine ⟨fun r h => ?_, fun e h => (C11_mask k P).2 e (map_error_inv h)⟩
  obtain ⟨m, hm, rfl⟩ := map_ok_inv h
  obtain ⟨hs, hc, hex⟩ := (C11_mask k P).1 m hm
  refine ⟨m, rfl, hs, hc, fun i hi => ?_, hex⟩
  rw [SwValid.pyIndex_maskPV false (by rw [hs]; exact hi), hc i hi]
  rfl

/-- … hence the call returns iff some k-mer is accepted, and raises `ValueError` iff none is. -/
theorem gen_C11_mask_iff (k : Nat) (P : List Char → Bool) (fuel : Nat) (verbose : Bool) (hf : 2 * k + 2 ≤ fuel) :
    ((∃ r, Gen.find_vertices fuel (.int (k : Int)) (tablePV k P) (.bool verbose) = .ok r) ↔
        ∃ i, i < 4 ^ k ∧ P (kmerOf k i) = true) ∧
    (Gen.find_vertices fuel (.int (k : Int)) (tablePV k P) (.bool verbose) = .error .valueError ↔
        ∀ i, i < 4 ^ k → P (kmerOf k i) = false) := by
  obtain ⟨h1, h2⟩ := gen_C11_mask k P fuel verbose hf
  cases hr : Gen.find_vertices fuel (.int (k : Int)) (tablePV k P) (.bool verbose) with
  | ok r =>
    obtain ⟨m, -, -, -, -, i, hi, hp⟩ := h1 r hr
    refine ⟨⟨fun _ => ⟨i, hi, hp⟩, fun _ => ⟨r, rfl⟩⟩, ⟨fun h => (by cases h), fun h => ?_⟩⟩
    rw [h i hi] at hp
    cases hp
  | error e =>
    obtain ⟨rfl, hall⟩ := h2 e hr
    refine ⟨⟨fun ⟨r, h⟩ => (by cases h), fun ⟨i, hi, hp⟩ => ?_⟩, ⟨fun _ => hall, fun _ => rfl⟩⟩
    rw [hall i hi] at hp
    cases hp

/-- the GC-balanced 2-mers: the filter "no homopolymer run above 1, GC content exactly one half". -/
def GraphCor.gcFilter : List Char → Bool :=
  fun x => ({ k := 2, run := some 1, gc := some ⟨1, 1, 1⟩ } : FilterCfg).valid x true

theorem GraphCor.gc_find : findVertices 2 gcFilter = .ok gcMask := by decide +kernel

/-- `find_vertices(2, filter)` of the generated code returns the GC-balanced mask. -/
theorem GraphCor.gc_find_gen : Gen.find_vertices 6 (.int 2) (tablePV 2 gcFilter) (.bool false) = .ok (maskPV false gcMask) :=
  (tie_find_vertices 2 gcFilter 6 false (by decide)).trans (by rw [gc_find]; rfl)

example : ∃ m : Mask, maskPV false gcMask = maskPV false m ∧ m.size = 4 ^ 2 ∧
    (∀ i, i < 4 ^ 2 → m.getD i false = gcFilter (kmerOf 2 i)) ∧
    (∀ i : Nat, i < 4 ^ 2 → pyIndex (maskPV false gcMask) (.int (i : Int)) = .ok (.bool (gcFilter (kmerOf 2 i)))) ∧
    ∃ i, i < 4 ^ 2 ∧ gcFilter (kmerOf 2 i) = true :=
  (gen_C11_mask 2 gcFilter 6 false (by decide)).1 _ gc_find_gen

/-- the filter that accepts nothing: `ValueError`. -/
example : Gen.find_vertices 6 (.int 2) (tablePV 2 fun _ => false) (.bool true) = .error .valueError :=
  (gen_C11_mask_iff 2 (fun _ => false) 6 true (by decide)).2.2 (fun _ _ => rfl)

/-- the accessor the generated `connect_valid_graph` returns for a mask of `4^k` cells (boolean or 0/1
integers) has `4^k` rows and an arc from `u` to `w` exactly when both are marked and `w` is a shift-successor
of `u`, stored in the column of `w`'s last nucleotide; it raises `ValueError` exactly for the empty mask, and
for `None` (`C11_valid_graph` about the generated code). -/
theorem gen_C11_valid_graph (k : Nat) (m : Mask) (asInt : Bool) (fuel : Nat) (verbose : Bool) (hk : 1 ≤ k)
    (hm : m.size = 4 ^ k) :
    (∀ r, Gen.connect_valid_graph fuel (.int (k : Int)) (maskPV asInt m) (.bool verbose) = .ok r →
        ∃ a : Acc, r = accPV a ∧ a.size = 4 ^ k ∧
          (∀ u j : Nat, u < 4 ^ k → j < 4 →
            a.ent (u : Int) j = if m.getD u false = true ∧ m.getD ((u * 4 + j) % 4 ^ k) false = true
                        then (((u * 4 + j) % 4 ^ k : Nat) : Int) else -1) ∧
          (∀ u j, u < 4 ^ k → j < 4 → ((u * 4 + j) % 4 ^ k) % 4 = j) ∧
          ∃ i, i < 4 ^ k ∧ m.getD i false = true) ∧
    (∀ e, Gen.connect_valid_graph fuel (.int (k : Int)) (maskPV asInt m) (.bool verbose) = .error e →
        e = .valueError ∧ ∀ i, i < 4 ^ k → m.getD i false = false) ∧
    Gen.connect_valid_graph fuel (.int (k : Int)) .none (.bool verbose) = .error .valueError := by
  rw [tie_connect_valid_graph k m asInt fuel verbose hm]
  obtain ⟨h1, h2, -⟩ := C11_valid_graph k m hk hm
  refine ⟨fun r h => ?_, fun e h => h2 e (map_error_inv h), tie_connect_valid_graph_none k fuel verbose⟩
  obtain ⟨a, ha, rfl⟩ := map_ok_inv h
  exact ⟨a, rfl, h1 a ha⟩

theorem GraphCor.gc_valid_gen :
    Gen.connect_valid_graph 0 (.int 2) (maskPV false gcMask) (.bool false) = .ok (accPV gcBalanced2) :=
  (tie_connect_valid_graph 2 gcMask false 0 false (by decide)).trans
    (by rw [show connectValidGraph 2 (some gcMask) = .ok gcBalanced2 by decide +kernel]; rfl)

example : ∃ a : Acc, accPV gcBalanced2 = accPV a ∧ a.size = 4 ^ 2 ∧
    (∀ u j : Nat, u < 4 ^ 2 → j < 4 →
      a.ent (u : Int) j = if gcMask.getD u false = true ∧ gcMask.getD ((u * 4 + j) % 4 ^ 2) false = true
                  then (((u * 4 + j) % 4 ^ 2 : Nat) : Int) else -1) ∧
    (∀ u j, u < 4 ^ 2 → j < 4 → ((u * 4 + j) % 4 ^ 2) % 4 = j) ∧
    ∃ i, i < 4 ^ 2 ∧ gcMask.getD i false = true :=
  (gen_C11_valid_graph 2 gcMask false 0 false (by decide) (by decide)).1 _ gc_valid_gen

/-! ## C03 — the coding graph is the largest closed sub-graph, or a ValueError -/

/-- for every mask of `4^k` cells (boolean or 0/1 integers) and every threshold `1 ≤ t`: what the generated
`connect_coding_graph` returns is the model's result — the tuple `(d, accessor)` where the accessor is the
sub-graph induced on the LARGEST closed subset `s` of the mask (`IsLargestClosed`), the vertex description `d`
denotes exactly `s` (`Denotes`, `Listed`), and `s` is exactly the set of vertices that have arcs, and is not
empty; it raises `ValueError` (and nothing else — in particular no loop runs out of the fuel `4^k + 2`)
exactly when every closed subset of the mask is empty (`C03_holds` = `C03_t1` + `C03_gfp` about the generated
code). -/
theorem gen_C03_holds (k t : Nat) (m : Mask) (asInt : Bool) (fuel : Nat) (verbose : Bool)
    (hm : m.size = 4 ^ k) (hk : 1 ≤ k) (ht : 1 ≤ t) (hf : 4 ^ k + 2 ≤ fuel) :
    (∀ r, Gen.connect_coding_graph fuel (.int (k : Int)) (maskPV asInt m) (.int (t : Int)) (.bool verbose) = .ok r →
        ∃ (s : Mask) (d : PV), r = .tup [d, accPV (inducedAccessor k s)] ∧
          connectCodingGraph k m t = .ok (s.indices, inducedAccessor k s) ∧
          IsLargestClosed k t m s ∧ Denotes d s.indices (4 ^ k) t ∧
          (∀ v, Listed d t v ↔ s.getD v false = true) ∧
          s.indices = (List.range (4 ^ k)).filter
            (fun (v : Nat) => decide ((inducedAccessor k s).live (v : Int) ≠ [])) ∧
          s.indices ≠ []) ∧
    (∀ e, Gen.connect_coding_graph fuel (.int (k : Int)) (maskPV asInt m) (.int (t : Int)) (.bool verbose) = .error e →
        e = .valueError ∧ ∀ s : Mask, s.size = 4 ^ k → s.Sub m → ClosedFor k t s → s.indices = []) := by
  obtain ⟨h1, h2⟩ := model_C03 k t m hm hk ht
  refine ⟨fun r h => ?_, fun e h => h2 e (ccg_of_error hm hf h)⟩
  obtain ⟨vs, a, d, hc, rfl, hden⟩ := ccg_of_ok hm hf h
  obtain ⟨s, hs, rfl, rfl, hv, hne⟩ := h1 vs a hc
  refine ⟨s, d, rfl, hc, hs, hden, fun v => ?_, ?_, hne⟩
  · rw [listed_iff hden (indices_lt hs.1)]
    exact Trim.Mask.mem_indices
  · rw [← C14_vertices k _ (C13_wfdb_induced k s)]
    exact hv

/-- … hence the call raises `ValueError` iff the mask has no non-empty closed subset, and returns otherwise. -/
theorem gen_C03_error_iff (k t : Nat) (m : Mask) (asInt : Bool) (fuel : Nat) (verbose : Bool)
    (hm : m.size = 4 ^ k) (hk : 1 ≤ k) (ht : 1 ≤ t) (hf : 4 ^ k + 2 ≤ fuel) :
    Gen.connect_coding_graph fuel (.int (k : Int)) (maskPV asInt m) (.int (t : Int)) (.bool verbose) =
        .error .valueError ↔
      ∀ s : Mask, s.size = 4 ^ k → s.Sub m → ClosedFor k t s → s.indices = [] := by
  obtain ⟨h1, h2⟩ := gen_C03_holds k t m asInt fuel verbose hm hk ht hf
  constructor
  · intro h
    exact (h2 _ h).2
  · intro hall
    cases hr : Gen.connect_coding_graph fuel (.int (k : Int)) (maskPV asInt m) (.int (t : Int)) (.bool verbose) with
    | error e => rw [(h2 e hr).1]
    | ok r =>
      obtain ⟨s, d, -, -, ⟨hs1, hs2, hs3, -⟩, -, -, -, hne⟩ := h1 r hr
      exact absurd (hall s hs1 hs2 hs3) hne

/-- `connect_coding_graph(2, mask, 2)` of the generated code on the GC-balanced mask returns `(d, accessor)` with
the GC-balanced accessor, `d` a mask denoting all eight vertices. -/
theorem GraphCor.gc_model : connectCodingGraph 2 gcMask 2 = .ok ([1, 2, 4, 7, 8, 11, 13, 14], gcBalanced2) := by
  decide +kernel

theorem GraphCor.gc_ccg : ∃ d, Gen.connect_coding_graph 18 (.int 2) (maskPV false gcMask) (.int 2) (.bool false) =
    .ok (.tup [d, accPV gcBalanced2]) ∧ Denotes d [1, 2, 4, 7, 8, 11, 13, 14] (4 ^ 2) 2 :=
  ccg_of_model_ok (k := 2) (t := 2) (by decide) (by decide) gc_model

theorem GraphCor.gc_listed {d : PV} (hd : Denotes d [1, 2, 4, 7, 8, 11, 13, 14] (4 ^ 2) 2) : Listed d 2 1 :=
  (listed_iff hd (by decide)).2 (by decide)

example : ∃ d, ∃ (s : Mask) (d' : PV), PV.tup [d, accPV gcBalanced2] = .tup [d', accPV (inducedAccessor 2 s)] ∧
    connectCodingGraph 2 gcMask 2 = .ok (s.indices, inducedAccessor 2 s) ∧
    IsLargestClosed 2 2 gcMask s ∧ Denotes d' s.indices (4 ^ 2) 2 ∧
    (∀ v, Listed d' 2 v ↔ s.getD v false = true) ∧
    s.indices = (List.range (4 ^ 2)).filter (fun (v : Nat) => decide ((inducedAccessor 2 s).live (v : Int) ≠ [])) ∧
    s.indices ≠ [] := by
  obtain ⟨d, hg, -⟩ := gc_ccg
  exact ⟨d, (gen_C03_holds 2 2 gcMask false 18 false (by decide) (by decide) (by decide) (by decide)).1 _ hg⟩

/-- order 1 with only `A` marked (as a 0/1 integer array): one marked successor, fewer than the threshold 2 — no
non-empty closed subset, `ValueError`. -/
example : Gen.connect_coding_graph 6 (.int 1) (maskPV true #[true, false, false, false]) (.int 2) (.bool false) =
    .error .valueError :=
  ccg_of_model_error (k := 1) (t := 2) (by decide) (by decide) (by decide +kernel)

/-- a smaller mask never yields a larger graph (`t ≥ 2`): if the generated `connect_coding_graph` returns
`(d, a)` for `m` and `m ⊆ m'`, it returns some `(d', a')` for `m'` (any array kind, fuel from `4^k + 2` on,
verbosity), every vertex `d` lists is listed by `d'`, and every arc of `a` is an arc of `a'` (`C03_mono` about
the generated code). -/
theorem gen_C03_mono (k t : Nat) (m m' : Mask) (asInt asInt' : Bool) (fuel fuel' : Nat) (verbose verbose' : Bool)
    (d : PV) (a : Acc) (hm : m.size = 4 ^ k) (hm' : m'.size = 4 ^ k) (hk : 1 ≤ k) (ht : 2 ≤ t)
    (hf : 4 ^ k + 2 ≤ fuel) (hf' : 4 ^ k + 2 ≤ fuel') (hsub : m.Sub m')
    (h : Gen.connect_coding_graph fuel (.int (k : Int)) (maskPV asInt m) (.int (t : Int)) (.bool verbose) =
      .ok (.tup [d, accPV a])) :
    ∃ d' a', Gen.connect_coding_graph fuel' (.int (k : Int)) (maskPV asInt' m') (.int (t : Int)) (.bool verbose') =
        .ok (.tup [d', accPV a']) ∧
      (∀ v, Listed d t v → Listed d' t v) ∧
      ∀ v j : Nat, v < 4 ^ k → j < 4 → 0 ≤ a.ent v j → a'.ent v j = a.ent v j := by
  obtain ⟨vs, hc, -, hl, -, -⟩ := ccg_facts hk hm (by omega) hf h
  obtain ⟨vs', a', hc', hmem, hent⟩ := C03_mono k t m m' hm hm' hk ht hsub vs a hc
  obtain ⟨d', hg', hden'⟩ := ccg_of_model_ok (asInt := asInt') (fuel := fuel') (verbose := verbose') hm' hf' hc'
  refine ⟨d', a', hg', fun v hv => ?_, fun v j hv hj => hent (v : Int) j (by exact_mod_cast hv) hj⟩
  obtain ⟨vs'', hc'', -, hl'', -, -⟩ := ccg_facts hk hm' (by omega) hf' hg'
  rw [hc'] at hc''
  cases hc''
  exact (hl'' v).2 (hmem v ((hl v).1 hv))

theorem GraphCor.gc_sub_all : gcMask.Sub (Array.replicate 16 true) := by
  intro v hv
  have hlt : v < 16 := Trim.Mask.lt_size_of_getD hv
  simp [Mask.has, Array.getD_eq_getD_getElem?, hlt]

example : ∃ d, ∃ d' a', Gen.connect_coding_graph 20 (.int 2) (maskPV true (Array.replicate 16 true)) (.int 2)
      (.bool true) = .ok (.tup [d', accPV a']) ∧
    (∀ v, Listed d 2 v → Listed d' 2 v) ∧
    ∀ v j : Nat, v < 4 ^ 2 → j < 4 → 0 ≤ gcBalanced2.ent v j → a'.ent v j = gcBalanced2.ent v j := by
  obtain ⟨d, hg, -⟩ := gc_ccg
  exact ⟨d, gen_C03_mono 2 2 gcMask (Array.replicate 16 true) false true 18 20 false true d gcBalanced2 (by decide)
    (by decide) (by decide) (by decide) (by decide) (by decide) gc_sub_all hg⟩

/-- `remove_useless` on ARBITRARY latter maps (a `dict` with distinct keys, successor lists arbitrary) and any
threshold: the generated function returns (it does not run out of the fuel `arcs + 2`) a sub-map that is closed
for the threshold, and that sub-map is the largest one (`C03_remove_useless` about the generated code). -/
theorem gen_C03_remove_useless (m : LMap) (t fuel : Nat) (verbose : Bool) (hn : LMap.KeysNodup m)
    (hf : m.arcs + 2 ≤ fuel) :
    ∃ m', Gen.remove_useless fuel (lmapPV m) (.int (t : Int)) (.bool verbose) = .ok (lmapPV m') ∧
      m'.SubOf m ∧ m'.ClosedT t ∧ ∀ c : LMap, c.SubOf m → c.ClosedT t → c.keys.Nodup → c.SubOf m' := by
  obtain ⟨m', e, hs, hc, hmax⟩ := C03_remove_useless m t hn
  exact ⟨m', tie_remove_useless m m' t fuel verbose hn e hf, hs, hc, hmax⟩

example : ∃ m', Gen.remove_useless 7 (lmapPV [(0, [1, 2]), (1, []), (2, [3, 4]), (3, [0])]) (.int 1) (.bool false) =
      .ok (lmapPV m') ∧
    m'.SubOf [(0, [1, 2]), (1, []), (2, [3, 4]), (3, [0])] ∧ m'.ClosedT 1 ∧
    ∀ c : LMap, c.SubOf [(0, [1, 2]), (1, []), (2, [3, 4]), (3, [0])] → c.ClosedT 1 → c.keys.Nodup → c.SubOf m' :=
  gen_C03_remove_useless _ 1 7 false (by unfold LMap.KeysNodup; decide) (by decide)

namespace GraphCor

theorem lma_some_split {lm : LMap} {k t : Nat} {a : Acc} (h : latterMapToAccessor lm k (some t) = .ok a) :
    ∃ lm', removeUseless lm t = .ok lm' ∧ latterMapToAccessor lm' k none = .ok a := by
  cases hr : removeUseless lm t with
  | error e => simp [latterMapToAccessor, hr, bind, Except.bind] at h
  | ok lm' =>
    refine ⟨lm', rfl, ?_⟩
    simpa [latterMapToAccessor, hr, bind, Except.bind, pure, Except.pure] using h

/-- a sub-map of a legal `dict` is a legal `dict` with the same key bound. -/
theorem subOf_legal {lm lm' : LMap} {n : Nat} (hs : lm'.SubOf lm) (hn : LMap.KeysNodup lm)
    (hk : ∀ p ∈ lm, p.1 < n) : LMap.KeysNodup lm' ∧ ∀ p ∈ lm', p.1 < n := by
  refine ⟨hs.1.nodup hn, fun p hp => ?_⟩
  have h1 : p.1 ∈ lm.keys := hs.1.subset (List.mem_map.2 ⟨p, hp, rfl⟩)
  obtain ⟨q, hq, he⟩ := List.mem_map.1 h1
  rw [← he]
  exact hk q hq

end GraphCor

/-- trimming the latter map of the VALID graph to the same threshold gives the CODING graph (`t ≥ 2`): if the
generated `connect_coding_graph` returned `(d, a)` for the mask, then the generated `connect_valid_graph` returns
an accessor for it, `accessor_to_latter_map` turns that into a `dict`, and both
`latter_map_to_accessor(…, threshold=t)` and `remove_useless(…, t)` followed by `latter_map_to_accessor(…)`
return the accessor `a` (`C03_latter_map` about the generated code; `4·4^k + 2` units of fuel suffice for the
trimming loop). -/
theorem gen_C03_latter_map (k t : Nat) (m : Mask) (asInt : Bool) (gfuel : Nat) (gvb : Bool) (d : PV) (a : Acc)
    (f1 f2 fuel f3 : Nat) (vb : Bool) (hm : m.size = 4 ^ k) (hk : 1 ≤ k) (ht : 2 ≤ t) (hgf : 4 ^ k + 2 ≤ gfuel)
    (hf : 4 * 4 ^ k + 2 ≤ fuel)
    (hg : Gen.connect_coding_graph gfuel (.int (k : Int)) (maskPV asInt m) (.int (t : Int)) (.bool gvb) =
      .ok (.tup [d, accPV a])) :
    ∃ (valid : Acc) (lm lm' : LMap),
      Gen.connect_valid_graph f1 (.int (k : Int)) (maskPV asInt m) (.bool vb) = .ok (accPV valid) ∧
      Gen.accessor_to_latter_map f2 (accPV valid) (.bool vb) = .ok (lmapPV lm) ∧
      Gen.latter_map_to_accessor fuel (lmapPV lm) (.int (k : Int)) (.int (t : Int)) (.bool vb) = .ok (accPV a) ∧
      Gen.remove_useless fuel (lmapPV lm) (.int (t : Int)) (.bool vb) = .ok (lmapPV lm') ∧
      Gen.latter_map_to_accessor f3 (lmapPV lm') (.int (k : Int)) .none (.bool vb) = .ok (accPV a) := by
  obtain ⟨vs, hc, -, -, -, -⟩ := ccg_facts hk hm (by omega) hgf hg
  have hlma := C03_latter_map k t m hm hk ht vs a hc
  obtain ⟨s, ⟨-, hsub, -, -⟩, -, rfl, -, hne⟩ := (model_C03 k t m hm hk (by omega)).1 vs a hc
  -- the mask is not empty
  have hcount : m.count > 0 := by
    obtain ⟨v, hv⟩ := List.exists_mem_of_ne_nil _ hne
    have hmv := hsub v (Trim.Mask.mem_indices.1 hv)
    exact (Mask.count_pos_iff_disc m).2 ⟨v, Trim.Mask.lt_size_of_getD hmv, hmv⟩
  have hvalid : connectValidGraph k (some m) = .ok (inducedAccessor k m) := by
    simp only [connectValidGraph, hcount, if_true]
  have hsz := induced_size k m
  have hnd := keysNodup_latterMap (inducedAccessor k m)
  have hkeys := keys_lt_latterMap hsz
  have harcs : (accessorToLatterMap (inducedAccessor k m)).arcs + 2 ≤ fuel := by
    have := arcs_latterMap_le (inducedAccessor k m)
    rw [hsz] at this
    omega
  obtain ⟨lm', hr, hplain⟩ := lma_some_split hlma
  obtain ⟨r', hr', hsubof, -, -⟩ := C03_remove_useless (accessorToLatterMap (inducedAccessor k m)) t hnd
  rw [hr] at hr'
  cases hr'
  obtain ⟨hnd', hkeys'⟩ := subOf_legal hsubof hnd hkeys
  refine ⟨inducedAccessor k m, accessorToLatterMap (inducedAccessor k m), lm', ?_, ?_, ?_, ?_, ?_⟩
  · rw [tie_connect_valid_graph k m asInt f1 vb hm, hvalid]; rfl
  · exact tie_accessor_to_latter_map _ f2 vb (induced_wf k m)
  · rw [tie_latter_map_to_accessor_trim _ k t fuel vb hnd hkeys harcs, hlma]; rfl
  · exact tie_remove_useless _ lm' t fuel vb hnd hr harcs
  · rw [tie_latter_map_to_accessor_plain lm' k f3 vb hnd' hkeys', hplain]; rfl

example : ∃ d, ∃ (valid : Acc) (lm lm' : LMap),
    Gen.connect_valid_graph 0 (.int 2) (maskPV false gcMask) (.bool false) = .ok (accPV valid) ∧
    Gen.accessor_to_latter_map 0 (accPV valid) (.bool false) = .ok (lmapPV lm) ∧
    Gen.latter_map_to_accessor 66 (lmapPV lm) (.int 2) (.int 2) (.bool false) = .ok (accPV gcBalanced2) ∧
    Gen.remove_useless 66 (lmapPV lm) (.int 2) (.bool false) = .ok (lmapPV lm') ∧
    Gen.latter_map_to_accessor 0 (lmapPV lm') (.int 2) .none (.bool false) = .ok (accPV gcBalanced2) ∧
    Denotes d [1, 2, 4, 7, 8, 11, 13, 14] (4 ^ 2) 2 := by
  obtain ⟨d, hg, hd⟩ := gc_ccg
  obtain ⟨valid, lm, lm', h1, h2, h3, h4, h5⟩ := gen_C03_latter_map 2 2 gcMask false 18 false d gcBalanced2 0 0 66 0
    false (by decide) (by decide) (by decide) (by decide) (by decide) hg
  exact ⟨d, valid, lm, lm', h1, h2, h3, h4, h5, hd⟩

/-! ## C04 — encoding is total, dead-end free and tight on generated graphs

`(d, a)` is what the generated `connect_coding_graph` returned for some mask and threshold `1 ≤ t`, and the start
vertex `v` is one of the vertices `d` lists. -/

namespace GraphCor

/-- the strand of an `.ok` result of `encode` is a walk. -/
theorem encode_isWalk {a : Acc} {tbl : Option Tbl} {v : Int} {bits : List Nat} {fast : Bool} {n fuel : Nat}
    {s : List Char} {c : Option (List Char)} (hb : IsBits bits)
    (h : encode a tbl v bits fast n fuel = .ok (s, c)) : isWalk a v s = true := by
  cases fast with
  | false => exact (cn_encodeNat_spec a tbl _ _ _ _ (cn_encode_normal_ok hb h).1).1
  | true => exact (cf_encode_walkBitsD a tbl _ v bits s hb (cf_encode_fast_ok h).1).1

/-- a start vertex listed by the description of a returned graph is a row index of the accessor. -/
theorem listed_lt {k t : Nat} {m : Mask} {asInt : Bool} {fuel : Nat} {verbose : Bool} {d : PV} {a : Acc} {v : Nat}
    (hk : 1 ≤ k) (hm : m.size = 4 ^ k) (ht : 1 ≤ t) (hf : 4 ^ k + 2 ≤ fuel)
    (h : Gen.connect_coding_graph fuel (.int (k : Int)) (maskPV asInt m) (.int (t : Int)) (.bool verbose) =
      .ok (.tup [d, accPV a])) (hv : Listed d t v) : a.WF ∧ a.size = 4 ^ k ∧ v < 4 ^ k := by
  obtain ⟨vs, -, -, hl, hlt, hw⟩ := ccg_facts hk hm ht hf h
  exact ⟨wf_of_wfdb hw, hw.1, hlt v ((hl v).1 hv)⟩

end GraphCor

/-- normal mode (`is_faster=False`): on a graph the generated `connect_coding_graph` returned, from any listed
start vertex, for any message of bits and any table, the generated `encode` returns a strand — it does not
raise, and does not run out of fuel for any fuel from `L·4^k + 3` on (`L·4^k + 1` loop iterations as in the
model, two units for the calls `tie_encode` accounts for) — and the strand is a walk of the graph with at most
`L·4^k` nucleotides (`C04_terminates_normal` about the generated code). -/
theorem gen_C04_terminates_normal (k t : Nat) (m : Mask) (asInt : Bool) (gfuel : Nat) (gvb : Bool) (d : PV)
    (a : Acc) (v : Nat) (tbl : Option Tbl) (bits : List Nat) (fuel : Nat) (vb : Bool)
    (hk : 1 ≤ k) (hm : m.size = 4 ^ k) (ht : 1 ≤ t) (hgf : 4 ^ k + 2 ≤ gfuel)
    (hg : Gen.connect_coding_graph gfuel (.int (k : Int)) (maskPV asInt m) (.int (t : Int)) (.bool gvb) =
      .ok (.tup [d, accPV a]))
    (hv : Listed d t v) (htbl : TblOK tbl a) (hb : IsBits bits) (hf : bits.length * 4 ^ k + 3 ≤ fuel) :
    ∃ s, Gen.encode fuel (bitsPV bits) (accPV a) (.int (v : Int)) (.bool false) (.int 0) (tblPV tbl)
        (.bool false) (.bool vb) = .ok (cstr s) ∧
      isWalk a (v : Int) s = true ∧ s.length ≤ bits.length * 4 ^ k := by
  obtain ⟨vs, hc, -, hl, hlt, hw⟩ := ccg_facts hk hm ht hgf hg
  have hvs := (hl v).1 hv
  obtain ⟨s, he, hwalk, hlen⟩ := C04_terminates_normal k t m vs a v tbl bits hk hm ht hc hvs hb
  rw [hw.1] at hlen
  exact ⟨s, genEncode_of_model hw (hlt v hvs) htbl hb hf he, hwalk, hlen⟩

example : ∃ s, Gen.encode 131 (bitsPV [0, 1, 0, 1, 0, 1, 0, 1]) (accPV gcBalanced2) (.int 1) (.bool false) (.int 0)
      PV.none (.bool false) (.bool false) = .ok (cstr s) ∧
    isWalk gcBalanced2 1 s = true ∧ s.length ≤ 8 * 4 ^ 2 := by
  obtain ⟨d, hg, hd⟩ := gc_ccg
  exact gen_C04_terminates_normal 2 2 gcMask false 18 false d gcBalanced2 1 none _ 131 false (by decide)
    (by decide) (by decide) (by decide) hg (gc_listed hd) (tblOK_none _) msg_bits (by decide)

/-- fast mode (`is_faster=True`), on generated graphs without out-degree 3 in reach of the start vertex
(`C04_terminates_fast` about the generated code). -/
theorem gen_C04_terminates_fast (k t : Nat) (m : Mask) (asInt : Bool) (gfuel : Nat) (gvb : Bool) (d : PV)
    (a : Acc) (v : Nat) (tbl : Option Tbl) (bits : List Nat) (fuel : Nat) (vb : Bool)
    (hk : 1 ≤ k) (hm : m.size = 4 ^ k) (ht : 1 ≤ t) (hgf : 4 ^ k + 2 ≤ gfuel)
    (hg : Gen.connect_coding_graph gfuel (.int (k : Int)) (maskPV asInt m) (.int (t : Int)) (.bool gvb) =
      .ok (.tup [d, accPV a]))
    (hv : Listed d t v) (htbl : TblOK tbl a) (hb : IsBits bits) (h3 : a.NoDeg3From (v : Int))
    (hf : bits.length * 4 ^ k + 3 ≤ fuel) :
    ∃ s, Gen.encode fuel (bitsPV bits) (accPV a) (.int (v : Int)) (.bool true) (.int 0) (tblPV tbl)
        (.bool false) (.bool vb) = .ok (cstr s) ∧
      isWalk a (v : Int) s = true ∧ s.length ≤ bits.length * 4 ^ k := by
  obtain ⟨vs, hc, -, hl, hlt, hw⟩ := ccg_facts hk hm ht hgf hg
  have hvs := (hl v).1 hv
  obtain ⟨s, he, hwalk, hlen⟩ := C04_terminates_fast k t m vs a v tbl bits hk hm ht hc hvs hb h3
  rw [hw.1] at hlen
  exact ⟨s, genEncode_of_model hw (hlt v hvs) htbl hb hf he, hwalk, hlen⟩

example : ∃ s, Gen.encode 131 (bitsPV [0, 1, 0, 1, 0, 1, 0, 1]) (accPV gcBalanced2) (.int 1) (.bool true) (.int 0)
      PV.none (.bool false) (.bool true) = .ok (cstr s) ∧
    isWalk gcBalanced2 1 s = true ∧ s.length ≤ 8 * 4 ^ 2 := by
  obtain ⟨d, hg, hd⟩ := gc_ccg
  exact gen_C04_terminates_fast 2 2 gcMask false 18 false d gcBalanced2 1 none _ 131 true (by decide)
    (by decide) (by decide) (by decide) hg (gc_listed hd) (tblOK_none _) msg_bits gc_noDeg3 (by decide)

/-- tightness in normal mode, for ANY well-formed graph and table: whatever the generated `encode` returns is
a strand `s` (with a check iff `vt_length > 0`) that is a walk; if it is not empty, its last nucleotide is
emitted at a branching vertex, and the product of the out-degrees met before the last step does not exceed the
message value (`C04_tight_normal` about the generated code). -/
theorem gen_C04_tight_normal (a : Acc) (tbl : Option Tbl) (v : Nat) (bits : List Nat) (n fuel : Nat) (vb : Bool)
    (r : PV) (ha : a.WF) (hv : v < a.size) (ht : TblOK tbl a) (hb : IsBits bits) (hf : 2 * n + 3 ≤ fuel)
    (h : Gen.encode fuel (bitsPV bits) (accPV a) (.int (v : Int)) (.bool false) (.int (n : Int)) (tblPV tbl)
      (.bool false) (.bool vb) = .ok r) :
    ∃ (s : List Char) (c : Option (List Char)), r = encResultPV (s, c) ∧ isWalk a (v : Int) s = true ∧
      (s ≠ [] → 2 ≤ a.outDeg (walkEnd a (v : Int) s.dropLast) ∧
        ((radices a (v : Int) s.dropLast).filter (· > 1)).foldl (· * ·) 1 ≤ bitToNumberInt bits) := by
  obtain ⟨s, c, hr, he⟩ := encode_of_gen ha hv ht hb hf h
  exact ⟨s, c, hr, encode_isWalk hb he, fun hs => C04_tight_normal a tbl v bits n fuel s c hb hs he⟩

example (r : PV) (h : Gen.encode 200 (bitsPV [0, 1, 0, 1, 0, 1, 0, 1]) (accPV gcBalanced2) (.int 1) (.bool false)
      (.int 5) PV.none (.bool false) (.bool false) = .ok r) :
    ∃ (s : List Char) (c : Option (List Char)), r = encResultPV (s, c) ∧ isWalk gcBalanced2 1 s = true ∧
      (s ≠ [] → 2 ≤ gcBalanced2.outDeg (walkEnd gcBalanced2 1 s.dropLast) ∧
        ((radices gcBalanced2 1 s.dropLast).filter (· > 1)).foldl (· * ·) 1 ≤
          bitToNumberInt [0, 1, 0, 1, 0, 1, 0, 1]) :=
  gen_C04_tight_normal gcBalanced2 none 1 _ 5 200 false r gc_wf gc_lt (tblOK_none _) msg_bits (by decide) h

/-- the hypothesis of the example is satisfiable: the generated `encode` returns `("TCTCTCT", "TAAGC")`. -/
example : ∃ r, Gen.encode 200 (bitsPV [0, 1, 0, 1, 0, 1, 0, 1]) (accPV gcBalanced2) (.int 1) (.bool false)
    (.int 5) PV.none (.bool false) (.bool false) = .ok r := ⟨_, gc_encode_normal⟩

/-- consequently an `L`-bit message needs at most `L` nucleotides when every vertex met has at least two arcs
(every threshold-2 graph) … (`C04_length_branching` about the generated code). -/
theorem gen_C04_length_branching (a : Acc) (tbl : Option Tbl) (v : Nat) (bits : List Nat) (n fuel : Nat)
    (vb : Bool) (r : PV) (ha : a.WF) (hv : v < a.size) (ht : TblOK tbl a) (hb : IsBits bits)
    (hf : 2 * n + 3 ≤ fuel)
    (h : Gen.encode fuel (bitsPV bits) (accPV a) (.int (v : Int)) (.bool false) (.int (n : Int)) (tblPV tbl)
      (.bool false) (.bool vb) = .ok r) :
    ∃ (s : List Char) (c : Option (List Char)), r = encResultPV (s, c) ∧
      ((∀ i, i < s.length → 2 ≤ a.outDeg (walkEnd a (v : Int) (s.take i))) → s.length ≤ bits.length) := by
  obtain ⟨s, c, hr, he⟩ := encode_of_gen ha hv ht hb hf h
  exact ⟨s, c, hr, fun h2 => C04_length_branching a tbl v bits n fuel s c hb he h2⟩

/-- … and at most `⌈L/2⌉` when every vertex met has four arcs (the complete graph)
(`C04_length_complete` about the generated code). -/
theorem gen_C04_length_complete (a : Acc) (tbl : Option Tbl) (v : Nat) (bits : List Nat) (n fuel : Nat)
    (vb : Bool) (r : PV) (ha : a.WF) (hv : v < a.size) (ht : TblOK tbl a) (hb : IsBits bits)
    (hf : 2 * n + 3 ≤ fuel)
    (h : Gen.encode fuel (bitsPV bits) (accPV a) (.int (v : Int)) (.bool false) (.int (n : Int)) (tblPV tbl)
      (.bool false) (.bool vb) = .ok r) :
    ∃ (s : List Char) (c : Option (List Char)), r = encResultPV (s, c) ∧
      ((∀ i, i < s.length → a.outDeg (walkEnd a (v : Int) (s.take i)) = 4) → s.length ≤ (bits.length + 1) / 2) := by
  obtain ⟨s, c, hr, he⟩ := encode_of_gen ha hv ht hb hf h
  exact ⟨s, c, hr, fun h4 => C04_length_complete a tbl v bits n fuel s c hb he h4⟩

/-- every vertex of the GC-balanced graph has exactly two arcs: the 8-bit message needs at most 8 nucleotides
(it needs 7). -/
example (r : PV) (h : Gen.encode 200 (bitsPV [0, 1, 0, 1, 0, 1, 0, 1]) (accPV gcBalanced2) (.int 1) (.bool false)
      (.int 5) PV.none (.bool false) (.bool false) = .ok r) :
    ∃ (s : List Char) (c : Option (List Char)), r = encResultPV (s, c) ∧
      ((∀ i, i < s.length → 2 ≤ gcBalanced2.outDeg (walkEnd gcBalanced2 1 (s.take i))) → s.length ≤ 8) :=
  gen_C04_length_branching gcBalanced2 none 1 _ 5 200 false r gc_wf gc_lt (tblOK_none _) msg_bits (by decide) h

example : ∀ i, i < "TCTCTCT".toList.length →
    2 ≤ gcBalanced2.outDeg (walkEnd gcBalanced2 1 ("TCTCTCT".toList.take i)) := by decide +kernel

/-- on the complete order-2 graph the 8-bit message needs at most 4 nucleotides. -/
example (r : PV) (h : Gen.encode 200 (bitsPV [0, 1, 0, 1, 0, 1, 0, 1]) (accPV (getCompleteAccessor 2)) (.int 1)
      (.bool false) (.int 0) PV.none (.bool false) (.bool false) = .ok r) :
    ∃ (s : List Char) (c : Option (List Char)), r = encResultPV (s, c) ∧
      ((∀ i, i < s.length → (getCompleteAccessor 2).outDeg (walkEnd (getCompleteAccessor 2) 1 (s.take i)) = 4) →
        s.length ≤ (8 + 1) / 2) :=
  gen_C04_length_complete (getCompleteAccessor 2) none 1 _ 0 200 false r (wf_of_wfdb (C13_complete 2 0 0
    (by decide) (by decide)).2) (by decide +kernel) (tblOK_none _) msg_bits (by decide) h

/-- tightness in fast mode, for ANY well-formed graph and table: the bits carried by the steps of the returned
strand total `L` or `L + 1`, and the last nucleotide is emitted at an information-carrying (2- or 4-way) vertex
(`C04_tight_fast` about the generated code). -/
theorem gen_C04_tight_fast (a : Acc) (tbl : Option Tbl) (v : Nat) (bits : List Nat) (n fuel : Nat) (vb : Bool)
    (r : PV) (ha : a.WF) (hv : v < a.size) (ht : TblOK tbl a) (hb : IsBits bits) (hf : 2 * n + 3 ≤ fuel)
    (h : Gen.encode fuel (bitsPV bits) (accPV a) (.int (v : Int)) (.bool true) (.int (n : Int)) (tblPV tbl)
      (.bool false) (.bool vb) = .ok r) :
    ∃ (s : List Char) (c : Option (List Char)), r = encResultPV (s, c) ∧ isWalk a (v : Int) s = true ∧
      (s ≠ [] →
        ((walkBits a tbl (v : Int) s).length = bits.length ∨ (walkBits a tbl (v : Int) s).length = bits.length + 1) ∧
        (a.outDeg (walkEnd a (v : Int) s.dropLast) = 2 ∨ a.outDeg (walkEnd a (v : Int) s.dropLast) = 4)) := by
  obtain ⟨s, c, hr, he⟩ := encode_of_gen ha hv ht hb hf h
  exact ⟨s, c, hr, encode_isWalk hb he, fun hs => C04_tight_fast a tbl v bits n fuel s c hb hs he⟩

example (r : PV) (h : Gen.encode 200 (bitsPV [0, 1, 0, 1, 0, 1, 0, 1]) (accPV gcBalanced2) (.int 1) (.bool true)
      (.int 5) PV.none (.bool false) (.bool false) = .ok r) :
    ∃ (s : List Char) (c : Option (List Char)), r = encResultPV (s, c) ∧ isWalk gcBalanced2 1 s = true ∧
      (s ≠ [] →
        ((walkBits gcBalanced2 none 1 s).length = 8 ∨ (walkBits gcBalanced2 none 1 s).length = 8 + 1) ∧
        (gcBalanced2.outDeg (walkEnd gcBalanced2 1 s.dropLast) = 2 ∨
          gcBalanced2.outDeg (walkEnd gcBalanced2 1 s.dropLast) = 4)) :=
  gen_C04_tight_fast gcBalanced2 none 1 _ 5 200 false r gc_wf gc_lt (tblOK_none _) msg_bits (by decide) h

example : ∃ r, Gen.encode 200 (bitsPV [0, 1, 0, 1, 0, 1, 0, 1]) (accPV gcBalanced2) (.int 1) (.bool true)
    (.int 5) PV.none (.bool false) (.bool false) = .ok r := ⟨_, gc_encode_fast⟩

/-! ## C02 — every emitted strand obeys the constraints its graph was generated for

The whole write path on generated code: `find_vertices` (any filter `P`) → `connect_coding_graph` → `encode`. -/

namespace GraphCor

/-- what `Gen.find_vertices … = .ok (maskPV false m)` says about the model. -/
theorem find_of_gen {k : Nat} {P : List Char → Bool} {fuel : Nat} {verbose : Bool} {m : Mask}
    (hf : 2 * k + 2 ≤ fuel)
    (h : Gen.find_vertices fuel (.int (k : Int)) (tablePV k P) (.bool verbose) = .ok (maskPV false m)) :
    findVertices k P = .ok m ∧ m.size = 4 ^ k := by
  rw [tie_find_vertices k P fuel verbose hf] at h
  obtain ⟨m', hm', he⟩ := map_ok_inv h
  rw [maskPV_false_inj he]
  exact ⟨hm', ((C11_mask k P).1 m' hm').1⟩

end GraphCor

/-- generated graphs are sub-graphs of the valid graph of the mask, for EVERY threshold `1 ≤ t`: every arc of
the accessor the generated `connect_coding_graph` returns is a shift arc between two marked vertices, and every
vertex its description lists is a marked vertex (`C02_generated_subgraph` / `E2E_generated_subgraph` about the
generated code). -/
theorem gen_C02_generated_subgraph (k t : Nat) (m : Mask) (asInt : Bool) (fuel : Nat) (verbose : Bool) (d : PV)
    (a : Acc) (hk : 1 ≤ k) (hm : m.size = 4 ^ k) (ht : 1 ≤ t) (hf : 4 ^ k + 2 ≤ fuel)
    (h : Gen.connect_coding_graph fuel (.int (k : Int)) (maskPV asInt m) (.int (t : Int)) (.bool verbose) =
      .ok (.tup [d, accPV a])) :
    SubGraphOf k a m ∧ ∀ v, Listed d t v → v < 4 ^ k ∧ m.getD v false = true := by
  obtain ⟨vs, hc, -, hl, hlt, -⟩ := ccg_facts hk hm ht hf h
  obtain ⟨s, ⟨-, hsub, -, -⟩, rfl, rfl, -, -⟩ := (model_C03 k t m hm hk ht).1 vs a hc
  refine ⟨Windows.arcsIn_induced k s m hsub, fun v hv => ?_⟩
  have hvs := (hl v).1 hv
  exact ⟨hlt v hvs, hsub v (Trim.Mask.mem_indices.1 hvs)⟩

/-- the same under the name of the end-to-end corollary. -/
theorem gen_E2E_generated_subgraph (k t : Nat) (m : Mask) (asInt : Bool) (fuel : Nat) (verbose : Bool) (d : PV)
    (a : Acc) (hk : 1 ≤ k) (hm : m.size = 4 ^ k) (ht : 1 ≤ t) (hf : 4 ^ k + 2 ≤ fuel)
    (h : Gen.connect_coding_graph fuel (.int (k : Int)) (maskPV asInt m) (.int (t : Int)) (.bool verbose) =
      .ok (.tup [d, accPV a])) :
    SubGraphOf k a m ∧ ∀ v, Listed d t v → v < 4 ^ k ∧ m.getD v false = true :=
  gen_C02_generated_subgraph k t m asInt fuel verbose d a hk hm ht hf h

example : ∃ d, SubGraphOf 2 gcBalanced2 gcMask ∧ ∀ v, Listed d 2 v → v < 4 ^ 2 ∧ gcMask.getD v false = true := by
  obtain ⟨d, hg, -⟩ := gc_ccg
  exact ⟨d, gen_C02_generated_subgraph 2 2 gcMask false 18 false d gcBalanced2 (by decide) (by decide) (by decide)
    (by decide) hg⟩

/-- sentence 1 on the generated code, for EVERY filter predicate `P`, observed length, threshold, listed start
vertex, table, message, mode and `vt_length`: if the generated `find_vertices` returned the mask, the generated
`connect_coding_graph` returned `(d, a)` for that mask, and the generated `encode` returned `r` on that graph,
then `r` is a strand `s` (with a check iff `vt_length > 0`) that is a walk of the graph, and every window of the
observed length of `start k-mer ++ s` satisfies `P` — including the windows that overlap the virtual start
vertex (`C02_windows` composed with `tie_find_vertices`, `tie_connect_coding_graph`, `tie_encode`). -/
theorem gen_C02_windows (k t : Nat) (P : List Char → Bool) (m : Mask) (d : PV) (a : Acc) (v : Nat)
    (tbl : Option Tbl) (bits : List Nat) (fast : Bool) (n ffuel gfuel fuel : Nat) (fvb gvb vb : Bool) (r : PV)
    (hk : 1 ≤ k) (ht : 1 ≤ t) (hff : 2 * k + 2 ≤ ffuel) (hgf : 4 ^ k + 2 ≤ gfuel) (hf : 2 * n + 3 ≤ fuel)
    (hfind : Gen.find_vertices ffuel (.int (k : Int)) (tablePV k P) (.bool fvb) = .ok (maskPV false m))
    (hg : Gen.connect_coding_graph gfuel (.int (k : Int)) (maskPV false m) (.int (t : Int)) (.bool gvb) =
      .ok (.tup [d, accPV a]))
    (hv : Listed d t v) (htbl : TblOK tbl a) (hb : IsBits bits)
    (henc : Gen.encode fuel (bitsPV bits) (accPV a) (.int (v : Int)) (.bool fast) (.int (n : Int)) (tblPV tbl)
      (.bool false) (.bool vb) = .ok r) :
    ∃ (s : List Char) (c : Option (List Char)), r = encResultPV (s, c) ∧ isWalk a (v : Int) s = true ∧
      ∀ i, i + k ≤ (kmerOf k v ++ s).length → P (((kmerOf k v ++ s).drop i).take k) = true := by
  obtain ⟨hfv, hm⟩ := find_of_gen hff hfind
  obtain ⟨hsub, hlist⟩ := gen_C02_generated_subgraph k t m false gfuel gvb d a hk hm ht hgf hg
  obtain ⟨hwf, hsz, hv4⟩ := listed_lt hk hm ht hgf hg hv
  obtain ⟨s, c, hr, he⟩ := encode_of_gen hwf (by rw [hsz]; exact hv4) htbl hb hf henc
  have hw := encode_isWalk hb he
  exact ⟨s, c, hr, hw, C02_windows k P m a v s hk hfv hsub hv4 (hlist v hv).2 hw⟩

example (r : PV) (h : Gen.encode 200 (bitsPV [0, 1, 0, 1, 0, 1, 0, 1]) (accPV gcBalanced2) (.int 1) (.bool true)
      (.int 5) PV.none (.bool false) (.bool false) = .ok r) :
    ∃ (s : List Char) (c : Option (List Char)), r = encResultPV (s, c) ∧ isWalk gcBalanced2 1 s = true ∧
      ∀ i, i + 2 ≤ (kmerOf 2 1 ++ s).length → gcFilter (((kmerOf 2 1 ++ s).drop i).take 2) = true := by
  obtain ⟨d, hg, hd⟩ := gc_ccg
  exact gen_C02_windows 2 2 gcFilter gcMask d gcBalanced2 1 none _ true 5 6 18 200 false false false r (by decide)
    (by decide) (by decide) (by decide) (by decide) gc_find_gen hg (gc_listed hd) (tblOK_none _) msg_bits h

/-- sentence 2 on the generated code: for a window-decidable built-in filter configuration `c` with consistent GC
thresholds (the table handed to `find_vertices` holds the answers of `c.valid · true` on the k-mers), the whole
strand the generated `encode` returns — alone and prefixed with the start k-mer — passes the whole-sequence
check (`C02_whole` composed with the three ties). -/
theorem gen_C02_whole (c : FilterCfg) (t : Nat) (m : Mask) (d : PV) (a : Acc) (v : Nat)
    (tbl : Option Tbl) (bits : List Nat) (fast : Bool) (n ffuel gfuel fuel : Nat) (fvb gvb vb : Bool) (r : PV)
    (hc : c.WindowDecidable) (hgc : c.GcConsistent) (ht : 1 ≤ t) (hff : 2 * c.k + 2 ≤ ffuel)
    (hgf : 4 ^ c.k + 2 ≤ gfuel) (hf : 2 * n + 3 ≤ fuel)
    (hfind : Gen.find_vertices ffuel (.int (c.k : Int)) (tablePV c.k fun x => c.valid x true) (.bool fvb) =
      .ok (maskPV false m))
    (hg : Gen.connect_coding_graph gfuel (.int (c.k : Int)) (maskPV false m) (.int (t : Int)) (.bool gvb) =
      .ok (.tup [d, accPV a]))
    (hv : Listed d t v) (htbl : TblOK tbl a) (hb : IsBits bits)
    (henc : Gen.encode fuel (bitsPV bits) (accPV a) (.int (v : Int)) (.bool fast) (.int (n : Int)) (tblPV tbl)
      (.bool false) (.bool vb) = .ok r) :
    ∃ (s : List Char) (ck : Option (List Char)), r = encResultPV (s, ck) ∧
      c.valid s false = true ∧ c.valid (kmerOf c.k v ++ s) false = true := by
  have hk := hc.1
  obtain ⟨hfv, hm⟩ := find_of_gen hff hfind
  obtain ⟨hsub, hlist⟩ := gen_C02_generated_subgraph c.k t m false gfuel gvb d a hk hm ht hgf hg
  obtain ⟨hwf, hsz, hv4⟩ := listed_lt hk hm ht hgf hg hv
  obtain ⟨s, ck, hr, he⟩ := encode_of_gen hwf (by rw [hsz]; exact hv4) htbl hb hf henc
  exact ⟨s, ck, hr, C02_whole c m a v s hc hgc hfv hsub hv4 (hlist v hv).2 (encode_isWalk hb he)⟩

example (r : PV) (h : Gen.encode 200 (bitsPV [0, 1, 0, 1, 0, 1, 0, 1]) (accPV gcBalanced2) (.int 1) (.bool false)
      (.int 5) PV.none (.bool false) (.bool false) = .ok r) :
    ∃ (s : List Char) (ck : Option (List Char)), r = encResultPV (s, ck) ∧
      ({ k := 2, run := some 1, gc := some ⟨1, 1, 1⟩ } : FilterCfg).valid s false = true ∧
      ({ k := 2, run := some 1, gc := some ⟨1, 1, 1⟩ } : FilterCfg).valid (kmerOf 2 1 ++ s) false = true := by
  obtain ⟨d, hg, hd⟩ := gc_ccg
  exact gen_C02_whole { k := 2, run := some 1, gc := some ⟨1, 1, 1⟩ } 2 gcMask d gcBalanced2 1 none _ false 5 6 18
    200 false false false r ⟨by decide, fun r hr => by cases hr; decide, fun ms hms => by cases hms⟩
    (fun g hg => by cases hg; decide) (by decide) (by decide) (by decide) (by decide) gc_find_gen hg
    (gc_listed hd) (tblOK_none _) msg_bits h

/-- the whole write path, total form: for any filter predicate `P`, observed length `k ≥ 1`, threshold `t ≥ 1`,
listed start vertex, table and message of `L` bits, if the generated `find_vertices` and `connect_coding_graph`
returned the mask and `(d, a)`, then the generated `encode` (normal mode, any fuel from `L·4^k + 3` on) RETURNS a
strand `s` such that (1) `s` is a walk of the graph, (2) every window of `start k-mer ++ s` satisfies `P`, (3) `s`
has at most `L·4^k` nucleotides (`E2E_write_read` without the decoding clause, which is `gen_C01_roundtrip`). -/
theorem gen_E2E_write (k t : Nat) (P : List Char → Bool) (m : Mask) (d : PV) (a : Acc) (v : Nat)
    (tbl : Option Tbl) (bits : List Nat) (ffuel gfuel fuel : Nat) (fvb gvb vb : Bool)
    (hk : 1 ≤ k) (ht : 1 ≤ t) (hff : 2 * k + 2 ≤ ffuel) (hgf : 4 ^ k + 2 ≤ gfuel)
    (hf : bits.length * 4 ^ k + 3 ≤ fuel)
    (hfind : Gen.find_vertices ffuel (.int (k : Int)) (tablePV k P) (.bool fvb) = .ok (maskPV false m))
    (hg : Gen.connect_coding_graph gfuel (.int (k : Int)) (maskPV false m) (.int (t : Int)) (.bool gvb) =
      .ok (.tup [d, accPV a]))
    (hv : Listed d t v) (htbl : TblOK tbl a) (hb : IsBits bits) :
    ∃ s, Gen.encode fuel (bitsPV bits) (accPV a) (.int (v : Int)) (.bool false) (.int 0) (tblPV tbl)
        (.bool false) (.bool vb) = .ok (cstr s) ∧
      isWalk a (v : Int) s = true ∧
      (∀ i, i + k ≤ (kmerOf k v ++ s).length → P (((kmerOf k v ++ s).drop i).take k) = true) ∧
      s.length ≤ bits.length * 4 ^ k := by
  obtain ⟨hfv, hm⟩ := find_of_gen hff hfind
  obtain ⟨s, he, hw, hl⟩ := gen_C04_terminates_normal k t m false gfuel gvb d a v tbl bits fuel vb hk hm ht hgf hg
    hv htbl hb hf
  obtain ⟨hsub, hlist⟩ := gen_C02_generated_subgraph k t m false gfuel gvb d a hk hm ht hgf hg
  exact ⟨s, he, hw, C02_windows k P m a v s hk hfv hsub (hlist v hv).1 (hlist v hv).2 hw, hl⟩

example : ∃ s, Gen.encode 131 (bitsPV [0, 1, 0, 1, 0, 1, 0, 1]) (accPV gcBalanced2) (.int 1) (.bool false) (.int 0)
      PV.none (.bool false) (.bool false) = .ok (cstr s) ∧
    isWalk gcBalanced2 1 s = true ∧
    (∀ i, i + 2 ≤ (kmerOf 2 1 ++ s).length → gcFilter (((kmerOf 2 1 ++ s).drop i).take 2) = true) ∧
    s.length ≤ 8 * 4 ^ 2 := by
  obtain ⟨d, hg, hd⟩ := gc_ccg
  exact gen_E2E_write 2 2 gcFilter gcMask d gcBalanced2 1 none _ 6 18 131 false false false (by decide) (by decide)
    (by decide) (by decide) (by decide) gc_find_gen hg (gc_listed hd) (tblOK_none _) msg_bits

/-! ## C13 — vertex indices are k-mers and arcs are shift-append -/

/-- the list the generated `obtain_latters` returns is: drop the first nucleotide of the k-mer, append one, in
`A, C, G, T` order (`C13_latters` about the generated code; any fuel — the function has no `while` loop). -/
theorem gen_C13_latters (k v fuel : Nat) (hk : 1 ≤ k) (h : v < 4 ^ k) :
    Gen.obtain_latters fuel (.int (v : Int)) (.int (k : Int)) =
      .ok (natsPV ("ACGT".toList.map fun c => kmerIdx ((kmerOf k v).tail ++ [c]))) := by
  rw [tie_obtain_latters, C13_latters k v hk h]

/-- the list the generated `obtain_formers` returns is: drop the last nucleotide, prepend one, in `A, C, G, T`
order (`C13_formers` about the generated code). -/
theorem gen_C13_formers (k v fuel : Nat) (hk : 1 ≤ k) (h : v < 4 ^ k) :
    Gen.obtain_formers fuel (.int (v : Int)) (.int (k : Int)) =
      .ok (natsPV ("ACGT".toList.map fun c => kmerIdx (c :: (kmerOf k v).dropLast))) := by
  rw [tie_obtain_formers k v fuel hk, C13_formers k v hk h]

/-- order 3: vertex 6 = `ACG` has the successors `CGA, CGC, CGG, CGT` = 24 … 27; vertex 27 = `CGT` has the
predecessors `ACG, CCG, GCG, TCG` = 6, 22, 38, 54. -/
example : Gen.obtain_latters 0 (.int 6) (.int 3) =
    .ok (natsPV ("ACGT".toList.map fun c => kmerIdx ((kmerOf 3 6).tail ++ [c]))) :=
  gen_C13_latters 3 6 0 (by decide) (by decide)
example : Gen.obtain_formers 0 (.int 27) (.int 3) =
    .ok (natsPV ("ACGT".toList.map fun c => kmerIdx (c :: (kmerOf 3 27).dropLast))) :=
  gen_C13_formers 3 27 0 (by decide) (by decide)
example : ("ACGT".toList.map fun c => kmerIdx ((kmerOf 3 6).tail ++ [c])) = [24, 25, 26, 27] ∧
    ("ACGT".toList.map fun c => kmerIdx (c :: (kmerOf 3 27).dropLast)) = [6, 22, 38, 54] := by decide +kernel

/-- the members of both lists are vertex indices (`C13_latters_lt`, `C13_formers_lt`). -/
theorem gen_C13_lt (k v fuel : Nat) (hk : 1 ≤ k) (h : v < 4 ^ k) :
    ∃ ls fs, Gen.obtain_latters fuel (.int (v : Int)) (.int (k : Int)) = .ok (natsPV ls) ∧
      Gen.obtain_formers fuel (.int (v : Int)) (.int (k : Int)) = .ok (natsPV fs) ∧
      (∀ w ∈ ls, w < 4 ^ k) ∧ ∀ u ∈ fs, u < 4 ^ k :=
  ⟨_, _, tie_obtain_latters k v fuel, tie_obtain_formers k v fuel hk, C13_latters_lt k v hk, C13_formers_lt k v hk h⟩

/-- `u` is in the list `obtain_formers(v, k)` returns exactly when `v` is in the list `obtain_latters(u, k)`
returns (`C13_former_iff_latter` about the generated code). -/
theorem gen_C13_former_iff_latter (k u v fuel fuel' : Nat) (hk : 1 ≤ k) (hu : u < 4 ^ k) (hv : v < 4 ^ k) :
    ∃ fs ls, Gen.obtain_formers fuel (.int (v : Int)) (.int (k : Int)) = .ok (natsPV fs) ∧
      Gen.obtain_latters fuel' (.int (u : Int)) (.int (k : Int)) = .ok (natsPV ls) ∧ (u ∈ fs ↔ v ∈ ls) :=
  ⟨_, _, tie_obtain_formers k v fuel hk, tie_obtain_latters k u fuel', C13_former_iff_latter k u v hk hu hv⟩

example : ∃ fs ls, Gen.obtain_formers 0 (.int 27) (.int 3) = .ok (natsPV fs) ∧
    Gen.obtain_latters 0 (.int 6) (.int 3) = .ok (natsPV ls) ∧ (6 ∈ fs ↔ 27 ∈ ls) :=
  gen_C13_former_iff_latter 3 6 27 0 0 (by decide) (by decide) (by decide)

/-- the accessor the generated `get_complete_accessor` returns holds the `j`-th successor of every vertex in
column `j`, and is a de Bruijn sub-table (`C13_complete` about the generated code). -/
theorem gen_C13_complete (k fuel : Nat) (verbose : Bool) :
    ∃ a : Acc, Gen.get_complete_accessor fuel (.int (k : Int)) (.bool verbose) = .ok (accPV a) ∧ WFdB k a ∧
      ∀ v j : Nat, v < 4 ^ k → j < 4 → a.ent v j = ((v * 4 + j) % 4 ^ k : Nat) :=
  ⟨_, tie_get_complete_accessor k fuel verbose, wfdb_complete k, fun v j h hj => (C13_complete k v j h hj).1⟩

example : ∃ a : Acc, Gen.get_complete_accessor 0 (.int 2) (.bool false) = .ok (accPV a) ∧ WFdB 2 a ∧
    ∀ v j : Nat, v < 4 ^ 2 → j < 4 → a.ent v j = ((v * 4 + j) % 4 ^ 2 : Nat) := gen_C13_complete 2 0 false

/-- every graph the generated builders return holds in column `j` either `-1` or the `j`-th shift-successor:
`connect_valid_graph` (`C13_wfdb_valid_graph`) … -/
theorem gen_C13_wfdb_valid_graph (k : Nat) (m : Mask) (asInt : Bool) (fuel : Nat) (verbose : Bool) (r : PV)
    (hm : m.size = 4 ^ k)
    (h : Gen.connect_valid_graph fuel (.int (k : Int)) (maskPV asInt m) (.bool verbose) = .ok r) :
    ∃ a : Acc, r = accPV a ∧ WFdB k a := by
  rw [tie_connect_valid_graph k m asInt fuel verbose hm] at h
  obtain ⟨a, ha, rfl⟩ := map_ok_inv h
  exact ⟨a, rfl, C13_wfdb_valid_graph k (some m) a ha⟩

/-- … `connect_coding_graph`, every threshold (`C13_wfdb_coding_graph`) … -/
theorem gen_C13_wfdb_coding_graph (k t : Nat) (m : Mask) (asInt : Bool) (fuel : Nat) (verbose : Bool) (r : PV)
    (hm : m.size = 4 ^ k) (hf : 4 ^ k + 2 ≤ fuel)
    (h : Gen.connect_coding_graph fuel (.int (k : Int)) (maskPV asInt m) (.int (t : Int)) (.bool verbose) = .ok r) :
    ∃ (d : PV) (a : Acc), r = .tup [d, accPV a] ∧ WFdB k a := by
  obtain ⟨vs, a, d, hc, rfl, -⟩ := ccg_of_ok hm hf h
  exact ⟨d, a, rfl, C13_wfdb_coding_graph k m t vs a hc⟩

/-- … and `latter_map_to_accessor` on a legal latter map: distinct keys below `4^k`, every listed successor a
shift-successor of its key (`C13_wfdb_latter_map`). -/
theorem gen_C13_wfdb_latter_map (k : Nat) (lm : LMap) (fuel : Nat) (verbose : Bool) (r : PV)
    (hn : LMap.KeysNodup lm) (hl : ∀ p ∈ lm, p.1 < 4 ^ k ∧ ∀ w ∈ p.2, w ∈ obtainLatters k p.1)
    (h : Gen.latter_map_to_accessor fuel (lmapPV lm) (.int (k : Int)) .none (.bool verbose) = .ok r) :
    ∃ a : Acc, r = accPV a ∧ WFdB k a := by
  rw [tie_latter_map_to_accessor_plain lm k fuel verbose hn (fun p hp => (hl p hp).1)] at h
  obtain ⟨a, ha, rfl⟩ := map_ok_inv h
  exact ⟨a, rfl, C13_wfdb_latter_map k lm a hl ha⟩

example : ∃ a : Acc, accPV gcBalanced2 = accPV a ∧ WFdB 2 a :=
  gen_C13_wfdb_valid_graph 2 gcMask false 0 false _ (by decide) gc_valid_gen
example : ∃ d, ∃ (d' : PV) (a : Acc), PV.tup [d, accPV gcBalanced2] = .tup [d', accPV a] ∧ WFdB 2 a := by
  obtain ⟨d, hg, -⟩ := gc_ccg
  exact ⟨d, gen_C13_wfdb_coding_graph 2 2 gcMask false 18 false _ (by decide) (by decide) hg⟩

/-! ## C14 — the graph representations are interchangeable

`a` is any arc subset of the order-`k` de Bruijn graph (`WFdB k a`), not only complete or vertex-induced ones.
The adjacency-matrix representation is not translated (see the header). -/

/-- accessor → latter map → accessor is the identity on the generated code: `accessor_to_latter_map` returns the
`dict` of a latter map `lm`, and `latter_map_to_accessor(lm, k)` returns the accessor
(`C14_latter_map_roundtrip`). -/
theorem gen_C14_latter_map_roundtrip (k : Nat) (a : Acc) (fuel fuel' : Nat) (vb vb' : Bool) (hk : 1 ≤ k)
    (h : WFdB k a) :
    ∃ lm : LMap, Gen.accessor_to_latter_map fuel (accPV a) (.bool vb) = .ok (lmapPV lm) ∧
      Gen.latter_map_to_accessor fuel' (lmapPV lm) (.int (k : Int)) .none (.bool vb') = .ok (accPV a) := by
  refine ⟨accessorToLatterMap a, tie_accessor_to_latter_map a fuel vb (wf_of_wfdb h), ?_⟩
  rw [tie_latter_map_to_accessor_plain _ k fuel' vb' (keysNodup_latterMap a) (keys_lt_latterMap h.1),
    C14_latter_map_roundtrip k a hk h]
  rfl

theorem GraphCor.gc_wfdb : WFdB 2 gcBalanced2 := C13_wfdb_induced 2 gcMask

example : ∃ lm : LMap, Gen.accessor_to_latter_map 0 (accPV gcBalanced2) (.bool false) = .ok (lmapPV lm) ∧
    Gen.latter_map_to_accessor 0 (lmapPV lm) (.int 2) .none (.bool true) = .ok (accPV gcBalanced2) :=
  gen_C14_latter_map_roundtrip 2 gcBalanced2 0 0 false true (by decide) gc_wfdb

/-- the `dict` the generated `accessor_to_latter_map` returns has distinct keys, lists exactly the vertices that
have arcs, in increasing order, each with exactly its live successors in column order
(`C14_latter_map_content`). -/
theorem gen_C14_latter_map_content (k : Nat) (a : Acc) (fuel : Nat) (vb : Bool) (h : WFdB k a) :
    ∃ lm : LMap, Gen.accessor_to_latter_map fuel (accPV a) (.bool vb) = .ok (lmapPV lm) ∧ LMap.KeysNodup lm ∧
      lm.map (·.1) = (List.range (4 ^ k)).filter (fun (v : Nat) => decide (a.live (v : Int) ≠ [])) ∧
      ∀ (v : Nat) ls, (v, ls) ∈ lm → ls = (a.live (v : Int)).map fun j => (v * 4 + j) % 4 ^ k :=
  ⟨_, tie_accessor_to_latter_map a fuel vb (wf_of_wfdb h), keysNodup_latterMap a, (C14_latter_map_content k a h).1,
    (C14_latter_map_content k a h).2⟩

example : ∃ lm : LMap, Gen.accessor_to_latter_map 0 (accPV gcBalanced2) (.bool false) = .ok (lmapPV lm) ∧
    LMap.KeysNodup lm ∧
    lm.map (·.1) = (List.range (4 ^ 2)).filter (fun (v : Nat) => decide (gcBalanced2.live (v : Int) ≠ [])) ∧
    ∀ (v : Nat) ls, (v, ls) ∈ lm → ls = (gcBalanced2.live (v : Int)).map fun j => (v * 4 + j) % 4 ^ 2 :=
  gen_C14_latter_map_content 2 gcBalanced2 0 false gc_wfdb

/-- the generated `obtain_vertices` returns exactly the vertices with arcs, in increasing order
(`C14_vertices`). -/
theorem gen_C14_vertices (k : Nat) (a : Acc) (fuel : Nat) (h : WFdB k a) :
    Gen.obtain_vertices fuel (accPV a) =
      .ok (idxArrPV ((List.range (4 ^ k)).filter (fun (v : Nat) => decide (a.live (v : Int) ≠ [])))) := by
  rw [tie_obtain_vertices a fuel (wf_of_wfdb h), C14_vertices k a h]

example : Gen.obtain_vertices 0 (accPV gcBalanced2) =
    .ok (idxArrPV ((List.range (4 ^ 2)).filter (fun (v : Nat) => decide (gcBalanced2.live (v : Int) ≠ [])))) :=
  gen_C14_vertices 2 gcBalanced2 0 gc_wfdb
example : (List.range (4 ^ 2)).filter (fun (v : Nat) => decide (gcBalanced2.live (v : Int) ≠ [])) =
    [1, 2, 4, 7, 8, 11, 13, 14] := by decide +kernel

/-- depth-`d` leaf queries of the generated `obtain_leaf_vertices` return the same array from either
representation, equal (as a multiset) to the end points of all `d`-step walks from `v`; giving both
representations, or neither, raises `ValueError` (`C14_leaves`). -/
theorem gen_C14_leaves (k : Nat) (a : Acc) (v d fuel fuel' : Nat) (h : WFdB k a) (hv : v < 4 ^ k) :
    ∃ l : List Nat,
      Gen.obtain_leaf_vertices fuel (.int (v : Int)) (.int (d : Int)) (accPV a) .none = .ok (idxArrPV l) ∧
      Gen.obtain_leaf_vertices fuel' (.int (v : Int)) (.int (d : Int)) .none (lmapPV (accessorToLatterMap a)) =
        .ok (idxArrPV l) ∧
      l.Perm (walkEnds a d v) ∧
      Gen.obtain_leaf_vertices fuel (.int (v : Int)) (.int (d : Int)) (accPV a) (lmapPV (accessorToLatterMap a)) =
        .error .valueError ∧
      Gen.obtain_leaf_vertices fuel (.int (v : Int)) (.int (d : Int)) .none .none = .error .valueError := by
  obtain ⟨h1, h2, h3⟩ := C14_leaves k a v d h hv
  obtain ⟨b1, b2⟩ := tie_obtain_leaf_vertices_bad a (accessorToLatterMap a) v d fuel
  refine ⟨leafAcc a d [v], ?_, ?_, h3, b1, b2⟩
  · rw [tie_obtain_leaf_vertices_acc a v d fuel (wf_of_wfdb h) (by rw [h.1]; exact hv), h1]; rfl
  · rw [tie_obtain_leaf_vertices_map _ v d fuel' (keysNodup_latterMap a), h2]; rfl

/-- the two queries on what `accessor_to_latter_map` returned. -/
theorem gen_C14_leaves' (k : Nat) (a : Acc) (v d f0 fuel fuel' : Nat) (vb : Bool) (h : WFdB k a) (hv : v < 4 ^ k) :
    ∃ (lm : LMap) (l : List Nat), Gen.accessor_to_latter_map f0 (accPV a) (.bool vb) = .ok (lmapPV lm) ∧
      Gen.obtain_leaf_vertices fuel (.int (v : Int)) (.int (d : Int)) (accPV a) .none = .ok (idxArrPV l) ∧
      Gen.obtain_leaf_vertices fuel' (.int (v : Int)) (.int (d : Int)) .none (lmapPV lm) = .ok (idxArrPV l) ∧
      l.Perm (walkEnds a d v) := by
  obtain ⟨l, h1, h2, h3, -, -⟩ := gen_C14_leaves k a v d fuel fuel' h hv
  exact ⟨_, l, tie_accessor_to_latter_map a f0 vb (wf_of_wfdb h), h1, h2, h3⟩

example : ∃ l : List Nat,
    Gen.obtain_leaf_vertices 0 (.int 1) (.int 3) (accPV gcBalanced2) .none = .ok (idxArrPV l) ∧
    Gen.obtain_leaf_vertices 0 (.int 1) (.int 3) .none (lmapPV (accessorToLatterMap gcBalanced2)) =
      .ok (idxArrPV l) ∧
    l.Perm (walkEnds gcBalanced2 3 1) ∧
    Gen.obtain_leaf_vertices 0 (.int 1) (.int 3) (accPV gcBalanced2) (lmapPV (accessorToLatterMap gcBalanced2)) =
      .error .valueError ∧
    Gen.obtain_leaf_vertices 0 (.int 1) (.int 3) .none .none = .error .valueError :=
  gen_C14_leaves 2 gcBalanced2 1 3 0 0 gc_wfdb (by decide)

/-! ## C19 — intersection scores (the part of C19 whose function is translated) -/

/-- the score table the generated `calculate_intersection_score` returns for the latter map of a de Bruijn
sub-table has the accessor's shape `4^k × 4` and is positive only on existing arcs, whatever the two flags
(`C19_scores` about the generated code; the latter map is the one the generated `accessor_to_latter_map`
returns). -/
theorem gen_C19_scores (k : Nat) (a : Acc) (ins del : Bool) (f0 fuel : Nat) (vb vb' : Bool) (hk : 1 ≤ k)
    (h : WFdB k a) :
    ∃ (lm : LMap) (sc : Array (Array Nat)),
      Gen.accessor_to_latter_map f0 (accPV a) (.bool vb) = .ok (lmapPV lm) ∧
      Gen.calculate_intersection_score fuel (lmapPV lm) (.int (k : Int)) (.bool ins) (.bool del) (.bool vb') =
        .ok (scoresPV sc) ∧
      sc.size = 4 ^ k ∧ (∀ v, v < 4 ^ k → (sc.getD v #[]).size = 4) ∧
      ∀ v j : Nat, v < 4 ^ k → j < 4 → 0 < scoreAt sc v j → 0 ≤ a.ent (v : Int) j := by
  obtain ⟨h1, h2, h3⟩ := C19_scores k a ins del hk h
  exact ⟨accessorToLatterMap a, _, tie_accessor_to_latter_map a f0 vb (wf_of_wfdb h),
    tie_calculate_intersection_score _ k fuel ins del vb' (keysNodup_latterMap a) (keys_lt_latterMap h.1), h1, h2, h3⟩

example : ∃ (lm : LMap) (sc : Array (Array Nat)),
    Gen.accessor_to_latter_map 0 (accPV gcBalanced2) (.bool false) = .ok (lmapPV lm) ∧
    Gen.calculate_intersection_score 0 (lmapPV lm) (.int 2) (.bool true) (.bool true) (.bool false) =
      .ok (scoresPV sc) ∧
    sc.size = 4 ^ 2 ∧ (∀ v, v < 4 ^ 2 → (sc.getD v #[]).size = 4) ∧
    ∀ v j : Nat, v < 4 ^ 2 → j < 4 → 0 < scoreAt sc v j → 0 ≤ gcBalanced2.ent (v : Int) j :=
  gen_C19_scores 2 gcBalanced2 true true 0 0 false false (by decide) gc_wfdb

end Dsw.Tie
