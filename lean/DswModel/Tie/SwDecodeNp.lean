import DswModel.Tie.PyLemmas
import DswModel.Tie.SpiderwebDefs
import DswModel.Lemmas.Digit
/-!
# Translation tie — `decode` (dsw/spiderweb.py): the NumPy part

Computation lemmas for the array primitives the generated `decode` uses, on the embeddings `accPV`,
`tblPV`, `bitsPV`: the live columns `where(accessor[v] >= 0)[0]` (= `Acc.live`), an accessor entry
(= `Acc.ent`), the gather `shuffles[v, used]` (= `Tbl.keys`), `argsort`, the inverse lookup
`where(argsort(..) == p)[0][0]` (= `posToDigit`), membership / `index` in the list of live nucleotides
(= `livePos`), `zeros`, `array`, item assignment.
Everything lives in the namespace `Dsw.Tie.DecodeTie`.
-/
namespace Dsw.Tie.DecodeTie
open Dsw Dsw.Py Dsw.Tie

/-! ## embeddings -/

/-- an index array (`used_indices`, an `argsort`). -/
def idxPV (l : List Nat) : PV := .arr (l.map fun (j : Nat) => .int (j : Int))

/-- one row of an accessor / of a shuffle table. -/
def rowPV (r : Array Int) : PV := .arr (r.toList.map fun (x : Int) => .int x)

theorem accPV_def (a : Acc) : accPV a = .arr (a.toList.map rowPV) := rfl

/-- `v` is a row index of `a`. -/
def InR (a : Acc) (v : Int) : Prop := 0 ≤ v ∧ v < (a.size : Int)

theorem inR_natCast {a : Acc} {v : Nat} (h : v < a.size) : InR a (v : Int) := by
  unfold InR; omega

theorem row_of_inR {a : Acc} {v : Int} (h : InR a v) : a.row v = a.getD v.toNat #[] := by
  have h1 : ¬ v < 0 := by have := h.1; omega
  unfold Acc.row
  simp only [h1, if_false]
  exact if_pos h

theorem wf_row {a : Acc} (ha : a.WF) {v : Int} (h : InR a v) :
    (a.row v).size = 4 ∧ ∀ j : Nat, j < 4 → (a.row v).getD j (-1) = -1 ∨
      (0 ≤ (a.row v).getD j (-1) ∧ (a.row v).getD j (-1) < a.size) := by
  rw [row_of_inR h]
  exact ha v.toNat (by have := h.1; have := h.2; omega)

theorem tbl_inR {a : Acc} {t : Tbl} (ht : a.size ≤ t.size) {v : Int} (h : InR a v) : InR t v := by
  unfold InR at *; omega

theorem tbl_row_size {t : Tbl} (h4 : ∀ r ∈ t.toList, r.size = 4) {v : Int} (h : InR t v) :
    (Acc.row t v).size = 4 := by
  rw [row_of_inR h]
  have hv : v.toNat < t.size := by have := h.1; have := h.2; omega
  apply h4
  rw [Array.getD_eq_getD_getElem?, Array.getElem?_eq_getElem hv]
  simp

/-! ## more computation lemmas on constructor-headed arguments -/

@[simp] theorem pyLen_arr (l : List PV) : pyLen (.arr l) = .ok (.int l.length) := rfl
@[simp] theorem pyIter_arr (l : List PV) : pyIter (.arr l) = .ok l := rfl
@[simp] theorem pyMap_arr (f : PV → RV) (l : List PV) : pyMap f (.arr l) = (mapM' f l).map .list := rfl
/-- `where` of a one-dimensional array (no item is a row). -/
@[simp] theorem npWhere_arr {l : List PV} (h : l.any PV.isArr = false) :
    npWhere (.arr l) = .ok (.tup [.arr (trueIdx l 0)]) := by
  simp only [npWhere, h, Bool.false_eq_true, if_false]
/-- … of an array of bools computed from a list (the shape every comparison produces). -/
@[simp] theorem npWhere_arr_map_bool {α} (p : α → Bool) (l : List α) :
    npWhere (.arr (l.map fun x => .bool (p x))) = .ok (.tup [.arr (trueIdx (l.map fun x => .bool (p x)) 0)]) :=
  npWhere_arr (any_isArr_map_bool p l)
@[simp] theorem pyIsNone_none : pyIsNone .none = true := rfl
@[simp] theorem pyIsNone_arr (l : List PV) : pyIsNone (.arr l) = false := rfl
@[simp] theorem pyIsNone_str (s : List Char) : pyIsNone (.str s) = false := rfl
@[simp] theorem npAdd_int (a b : Int) : npAdd (.int a) (.int b) = .ok (.int (a + b)) := rfl
@[simp] theorem pyIndexOf_str (x : PV) (cs : List Char) : pyIndexOf (.str cs) x = pyStrIndex (.str cs) x := rfl
@[simp] theorem pyIndexOf_list (l : List PV) (x : PV) :
    pyIndexOf (.list l) x = match findIdxEq x l 0 with
      | some i => .ok (.int i)
      | Option.none => .error .valueError := rfl
@[simp] theorem pyIn_list (x : PV) (l : List PV) : pyIn x (.list l) = .ok ((findIdxEq x l 0).isSome) := rfl

theorem pyIndex_arr_nat {l : List PV} {i : Nat} (h : i < l.length) :
    pyIndex (.arr l) (.int i) = .ok (l.getD i .none) := by
  simp [pyIndex, pyIndexSeq, normIndex_natCast h]
theorem pyIndex_arr_int {l : List PV} {i : Int} (h0 : 0 ≤ i) (h : i < l.length) :
    pyIndex (.arr l) (.int i) = .ok (l.getD i.toNat .none) := by
  simp [pyIndex, pyIndexSeq, normIndex_of_nonneg h0 h]
@[simp] theorem pyIndex_arr_cons_zero (x : PV) (xs : List PV) : pyIndex (.arr (x :: xs)) (.int 0) = .ok x :=
  pyIndex_arr_nat (l := x :: xs) (i := 0) (by simp)

theorem pyIndex_accPV {a : Acc} {v : Int} (h : InR a v) :
    pyIndex (accPV a) (.int v) = .ok (rowPV (a.row v)) := by
  have hv : v.toNat < a.size := by have := h.1; have := h.2; omega
  rw [row_of_inR h, accPV_def, pyIndex_arr_int h.1 (by simpa using h.2)]
  simp [List.getD_eq_getElem?_getD, hv, Array.getD_eq_getD_getElem?]

theorem pyIndex_rowPV {r : Array Int} {j : Nat} (h : j < r.size) (d : Int) :
    pyIndex (rowPV r) (.int j) = .ok (.int (r.getD j d)) := by
  rw [rowPV, pyIndex_arr_nat (by simpa using h)]
  simp [List.getD_eq_getElem?_getD, h, Array.getD_eq_getD_getElem?]

/-- `accessor[v][j]`. -/
theorem pyIndex_ent {a : Acc} (ha : a.WF) {v : Int} (h : InR a v) {j : Nat} (hj : j < 4) :
    pyIndex (rowPV (a.row v)) (.int j) = .ok (.int (a.ent v j)) := by
  rw [pyIndex_rowPV (by rw [(wf_row ha h).1]; exact hj) (-1)]; rfl

@[simp] theorem tblPV_none : tblPV Option.none = .none := rfl
@[simp] theorem tblPV_some (t : Tbl) : tblPV (some t) = accPV t := rfl
@[simp] theorem pyIsNone_accPV (a : Acc) : pyIsNone (accPV a) = false := rfl
@[simp] theorem pyLen_idxPV (l : List Nat) : pyLen (idxPV l) = .ok (.int (l.length : Int)) := by
  simp [idxPV]
@[simp] theorem pyIndex_idxPV_cons_zero (x : Nat) (xs : List Nat) :
    pyIndex (idxPV (x :: xs)) (.int 0) = .ok (.int (x : Int)) := by
  simp [idxPV]
@[simp] theorem pyLen_bitsPV (l : List Nat) : pyLen (bitsPV l) = .ok (.int (l.length : Int)) := by
  simp [bitsPV]

/-! ## `where(accessor[v] >= 0)[0]` -/

/-- positions (counted from `k`) of the non-negative entries. -/
def liveOf : List Int → Nat → List Nat
  | [], _ => []
  | x :: xs, k => if 0 ≤ x then k :: liveOf xs (k + 1) else liveOf xs (k + 1)

theorem mapM'_ge_zero (xs : List Int) :
    mapM' (fun x => cmpItem pyGe x (.int 0)) (xs.map PV.int) = .ok (xs.map fun x => PV.bool (decide (0 ≤ x))) :=
  mapM'_map (fun _ _ => rfl)

theorem npCmp_ge_zero (r : Array Int) :
    npCmp pyGe (rowPV r) (.int 0) = .ok (.arr (r.toList.map fun x => PV.bool (decide (0 ≤ x)))) := by
  simp only [rowPV, npCmp, arrBroadcast, mapM'_ge_zero, R_map_ok]

theorem trueIdx_ge_zero (xs : List Int) (k : Nat) :
    trueIdx (xs.map fun x => PV.bool (decide (0 ≤ x))) k = (liveOf xs k).map fun (j : Nat) => PV.int (j : Int) := by
  induction xs generalizing k with
  | nil => rfl
  | cons x xs ih =>
    by_cases hx : 0 ≤ x <;> simp [trueIdx, liveOf, hx, ih]

theorem live_eq_liveOf (a : Acc) (v : Int) (h4 : (a.row v).size = 4) : a.live v = liveOf (a.row v).toList 0 := by
  unfold Acc.live Acc.ent
  generalize a.row v = r at h4
  match r, h4 with
  | ⟨[x0, x1, x2, x3]⟩, _ =>
    have hr : List.range 4 = [0, 1, 2, 3] := by decide
    simp only [hr, liveOf]
    by_cases h0 : 0 ≤ x0 <;> by_cases h1 : 0 ≤ x1 <;> by_cases h2 : 0 ≤ x2 <;> by_cases h3 : 0 ≤ x3 <;>
      simp [List.filter, h0, h1, h2, h3]

/-- `used_indices = where(accessor[v] >= 0)[0]`, the way the generated code spells it. -/
theorem used_spec {a : Acc} (ha : a.WF) {v : Int} (h : InR a v) :
    (bnd (bnd (bnd (pyIndex (accPV a) (.int v)) fun t => npCmp pyGe t (.int 0)) fun t => npWhere t)
      fun t => pyIndex t (.int 0)) = .ok (idxPV (a.live v)) := by
  simp only [pyIndex_accPV h, bnd_ok, npCmp_ge_zero, npWhere_arr_map_bool, pyIndex_tup_cons_zero, trueIdx_ge_zero,
    live_eq_liveOf a v (wf_row ha h).1, idxPV]

/-! ## the live nucleotides -/

/-- `[nucleotides[i] for i in used_indices]`. -/
def nucsPV (used : List Nat) : PV := .list (used.map fun j => PV.str [nucChar j])

theorem mapM'_nucs {used : List Nat} (hu : ∀ j ∈ used, j < 4) :
    mapM' (fun it => pyIndex (.str ['A', 'C', 'G', 'T']) it) (used.map fun (j : Nat) => PV.int (j : Int)) =
      .ok (used.map fun j => PV.str [nucChar j]) :=
  mapM'_map (fun j hj => pyIndex_ACGT (hu j hj))

theorem pyMap_nucs {used : List Nat} (hu : ∀ j ∈ used, j < 4) :
    pyMap (fun it => pyIndex (.str ['A', 'C', 'G', 'T']) it) (idxPV used) = .ok (nucsPV used) := by
  simp only [idxPV, pyMap_arr, mapM'_nucs hu, R_map_ok, nucsPV]

theorem nucChar_eq_iff {j : Nat} (hj : j < 4) (c : Char) : nucChar j = c ↔ nucIdx c = some j := by
  constructor
  · intro h; rw [← h]; exact nucIdx_nucChar j hj
  · exact nucChar_nucIdx

theorem findIdxEq_nucs (c : Char) (used : List Nat) (hu : ∀ j ∈ used, j < 4) (k : Nat) :
    findIdxEq (.str [c]) (used.map fun j => PV.str [nucChar j]) k =
      match nucIdx c with
      | Option.none => Option.none
      | some j => if used.contains j then some (k + used.idxOf j) else Option.none := by
  induction used generalizing k with
  | nil => cases nucIdx c <;> rfl
  | cons x xs ih =>
    have hx : x < 4 := hu x (by simp)
    have ih' := ih (fun j hj => hu j (by simp [hj])) (k + 1)
    simp only [List.map_cons, findIdxEq, eqb_str, ih']
    cases hc : nucIdx c with
    | none =>
      have : ¬ nucChar x = c := by rw [nucChar_eq_iff hx, hc]; simp
      simp [this]
    | some j =>
      by_cases hxj : x = j
      · subst hxj
        have : nucChar x = c := (nucChar_eq_iff hx c).mpr hc
        simp [this]
      · have hne : ¬ nucChar x = c := by
          rw [nucChar_eq_iff hx, hc]; intro h; injection h with h; exact hxj h.symm
        have hjx : ¬ j = x := fun h => hxj h.symm
        have h1 : ([nucChar x] == [c]) = false := by simp [hne]
        have h2 : (j == x) = false := by simp [hjx]
        have h3 : (x == j) = false := by simp [hxj]
        simp only [h1, List.contains_cons, h2, Bool.false_or, List.idxOf_cons, h3, cond_false,
          Bool.false_eq_true, if_false]
        by_cases hm : xs.contains j = true
        · simp only [hm, if_true]; congr 1; omega
        · simp only [hm, Bool.false_eq_true, if_false]

theorem findIdxEq_livePos (a : Acc) (v : Int) (c : Char) :
    findIdxEq (.str [c]) ((a.live v).map fun j => PV.str [nucChar j]) 0 = livePos a v c := by
  rw [findIdxEq_nucs c _ (fun j hj => live_lt_four a v hj) 0]
  unfold livePos
  cases nucIdx c <;> simp

/-- `nucleotide in used_nucleotides`. -/
theorem pyIn_nucs (a : Acc) (v : Int) (c : Char) :
    pyIn (.str [c]) (nucsPV (a.live v)) = .ok (livePos a v c).isSome := by
  simp only [nucsPV, pyIn_list, findIdxEq_livePos]

/-- `used_nucleotides.index(nucleotide)`. -/
theorem pyIndexOf_nucs {a : Acc} {v : Int} {c : Char} {p : Nat} (h : livePos a v c = some p) :
    pyIndexOf (nucsPV (a.live v)) (.str [c]) = .ok (.int (p : Int)) := by
  simp only [nucsPV, pyIndexOf_list, findIdxEq_livePos, h]

theorem livePos_spec {a : Acc} {v : Int} {c : Char} {p : Nat} (h : livePos a v c = some p) :
    ∃ j, nucIdx c = some j ∧ j ∈ a.live v ∧ p = (a.live v).idxOf j ∧ p < (a.live v).length := by
  unfold livePos at h
  cases hc : nucIdx c with
  | none => simp [hc] at h
  | some j =>
    simp only [hc] at h
    by_cases hm : (a.live v).contains j = true
    · rw [if_pos hm] at h
      injection h with h
      have hmem : j ∈ a.live v := by simpa using hm
      exact ⟨j, rfl, hmem, h.symm, by rw [← h]; exact List.idxOf_lt_length_of_mem hmem⟩
    · rw [if_neg hm] at h; cases h

/-! ## the shuffle table: gather, `argsort`, inverse lookup -/

theorem npIndex2_keys {t : Tbl} {v : Int} (h : InR t v) (h4 : (Acc.row t v).size = 4) {used : List Nat}
    (hu : ∀ j ∈ used, j < 4) :
    npIndex2 (accPV t) (.int v) (idxPV used) = .ok (.arr ((t.keys v used).map PV.int)) := by
  simp only [npIndex2, pyIndex_accPV h, idxPV]
  rw [mapM'_map (g := fun j => PV.int ((Acc.row t v).getD j 0))
    (fun j hj => pyIndex_rowPV (by rw [h4]; exact hu j hj) 0)]
  simp [Tbl.keys]

theorem mapM_asInt (ks : List Int) : (ks.map PV.int).mapM PV.asInt? = some ks := by
  induction ks with
  | nil => rfl
  | cons k ks ih => simp [List.mapM_cons, ih]

theorem npArgsort_ints (ks : List Int) : npArgsort (.arr (ks.map PV.int)) = .ok (idxPV (argsort ks)) := by
  simp only [npArgsort, mapM_asInt, idxPV]

theorem npCmp_eq_idx (l : List Nat) (p : Nat) :
    npCmp pyEq (idxPV l) (.int (p : Int)) = .ok (.arr (l.map fun i => PV.bool (decide (i = p)))) := by
  simp only [idxPV, npCmp, arrBroadcast]
  rw [mapM'_map (g := fun i => PV.bool (decide (i = p)))]
  · rfl
  · intro i _
    have : ((i : Int) == (p : Int)) = decide (i = p) := by
      by_cases h : i = p
      · simp [h]
      · have : ¬ (i : Int) = p := by omega
        simp [h, this]
    simp only [cmpItem, liftCmp, pyEq_def, eqb_int, this, R_map_ok]

theorem trueIdx_eq_head (l : List Nat) (p k : Nat) (hp : p ∈ l) :
    ∃ rest, trueIdx (l.map fun i => PV.bool (decide (i = p))) k = PV.int ((k + l.idxOf p : Nat) : Int) :: rest := by
  induction l generalizing k with
  | nil => simp at hp
  | cons x xs ih =>
    by_cases hx : x = p
    · subst hx
      exact ⟨trueIdx (xs.map fun i => PV.bool (decide (i = x))) (k + 1), by simp [trueIdx]⟩
    · have hp' : p ∈ xs := by
        rcases List.mem_cons.mp hp with h | h
        · exact absurd h.symm hx
        · exact h
      obtain ⟨rest, hr⟩ := ih (k + 1) hp'
      refine ⟨rest, ?_⟩
      have h3 : (x == p) = false := by simp [hx]
      simp only [List.map_cons, trueIdx, truthy_bool, hx, decide_false, Bool.false_eq_true, if_false, hr,
        List.idxOf_cons, h3, cond_false]
      congr 3; omega

/-- `where(idx == p)[0][0]`. -/
theorem where_eq_first {l : List Nat} {p : Nat} (hp : p ∈ l) :
    pyIndex (.arr (trueIdx (l.map fun i => PV.bool (decide (i = p))) 0)) (.int 0) = .ok (.int (l.idxOf p : Int)) := by
  obtain ⟨rest, hr⟩ := trueIdx_eq_head l p 0 hp
  rw [hr, pyIndex_arr_cons_zero]; simp

/-- `where(argsort(shuffles[v, used]) == p)[0][0]`, the way the generated code spells it. -/
theorem lookup_spec {t : Tbl} {v : Int} (h : InR t v) (h4 : (Acc.row t v).size = 4) {used : List Nat}
    (hu : ∀ j ∈ used, j < 4) {p : Nat} (hp : p < used.length) :
    (bnd (bnd (bnd (bnd (bnd (npIndex2 (accPV t) (.int v) (idxPV used)) fun x => npArgsort x)
      fun x => npCmp pyEq x (.int (p : Int))) fun x => npWhere x) fun x => pyIndex x (.int 0))
      fun x => pyIndex x (.int 0)) = .ok (.int ((posToDigit (some t) v used p : Nat) : Int)) := by
  have hmem : p ∈ argsort (t.keys v used) := by rw [mem_argsort, keys_length]; exact hp
  simp only [npIndex2_keys h h4 hu, bnd_ok, npArgsort_ints, npCmp_eq_idx, npWhere_arr_map_bool, pyIndex_tup_cons_zero,
    where_eq_first hmem, posToDigit]

/-! ## `zeros`, `array`, item assignment -/

theorem npZeros_nat (L : Nat) : npZeros (.tup [.int (L : Int)]) = .ok (bitsPV (List.replicate L 0)) := by
  have : ¬ (L : Int) < 0 := by omega
  simp [npZeros, this, bitsPV]

theorem npArray_natsPV (l : List Nat) : npArray (natsPV l) = .ok (bitsPV l) := by
  simp only [natsPV, npArray, bitsPV]
  rw [mapM'_map (f := npArrayItem) (g := fun (n : Nat) => PV.int (n : Int)) (fun _ _ => rfl)]
  rfl

theorem pySetItem_bits {bm : List Nat} {i : Nat} (h : i < bm.length) (x : Nat) :
    pySetItem (bitsPV bm) (.int (i : Int)) (.int (x : Int)) = .ok (bitsPV (bm.set i x)) := by
  simp [bitsPV, pySetItem, pySetItemSeq, normIndex_natCast h, List.getD_eq_getElem?_getD,
    List.getElem?_eq_getElem h]

theorem pySetItem_bits_of_ge {bm : List Nat} {i : Nat} (h : bm.length ≤ i) (x : Nat) :
    pySetItem (bitsPV bm) (.int (i : Int)) (.int (x : Int)) = .error .indexError := by
  have : normIndex bm.length (i : Int) = Option.none := normIndex_of_ge (by omega)
  simp [bitsPV, pySetItem, this]

end Dsw.Tie.DecodeTie
