import DswModel.Tie.SwEncode
import DswModel.Tie.SwDecode
import DswModel.Props.C01
import DswModel.Props.C03
import DswModel.Props.C05
import DswModel.Props.C06
import DswModel.Props.C07
import DswModel.Lemmas.Tight
/-!
# C01, C05, C06 and C07 stated about the generated definitions of `dsw/spiderweb.py`

`DswModel/Props/C01.lean`, `C05.lean`, `C06.lean` and `C07.lean` prove the properties about the
hand-written model (`Dsw.encode`, `Dsw.decode`, `Dsw.setVt`); `Tie/SwVt.lean`, `Tie/SwEncode.lean` and
`Tie/SwDecode.lean` prove that the definitions generated from the Python source (`Gen.set_vt`,
`Gen.encode`, `Gen.decode`) compute the model functions on the ties' contract.  Here the two are
composed: every theorem below speaks about `Gen.*`, i.e. about what the Python source computes as
translated.

Conventions (`Tie/SpiderwebDefs.lean`): `cstr s` is the Python `str`, `accPV a` / `tblPV tbl` the
two-dimensional NumPy array of the accessor / `None` or the array of the shuffle table, `bitsPV m`
the one-dimensional NumPy array of the bits, `chkPV c` is `None` or the `str` of the check and
`encResultPV (s, c)` is what `encode(..., need_path=False)` returns: `str s` without a check
(`vt_length = 0`), the tuple `(str s, str c)` with one.

The contract of the ties, hence of every theorem here: the accessor is well formed (`Acc.WF`: four
entries per row, each `-1` or a row index), the start vertex is a row index (`v : Nat`, `v < a.size`),
the table (if any) can be indexed wherever the accessor is (`TblOK`), the message consists of `0`/`1`
(`IsBits`), `need_path = False`, and a supplied check is not the empty string.  Every generated
function takes a `fuel : Nat` bounding its `while` loops; each theorem gives an explicit bound that
suffices.  The model-level theorems quantify over arbitrary accessors and start vertices `v : Int`;
they are specialised to this contract.

Not transported (outside the ties' contract):
* `need_path = True` (the path record of `encode`) — `tie_encode` fixes `need_path = False`;
* `vt_check = ""` (`chk = some []`) in `decode` — `tie_decode` needs a non-empty check, so C06 and
  `C07_decode_rejects` are stated for `chk = none` or a non-empty check;
* `set_vt(dna, 0)` — `tie_set_vt` needs `1 ≤ n` (so `gen_C07_foreign` has `1 ≤ n`, which `C07_foreign`
  does not need);
* accessors that are not well formed, start vertices that are negative or not row indices, tables
  with short rows.
-/
namespace Dsw.Tie
open Dsw Dsw.Py

/-! ## helper lemmas -/

namespace SwCor

theorem tblOK_none (a : Acc) : TblOK none a := fun _ h => by cases h

theorem map_ok_inv {α β} {x : R α} {f : α → β} {y : β} (h : x.map f = .ok y) :
    ∃ x', x = .ok x' ∧ y = f x' := by
  obtain ⟨x', h1, h2⟩ := cn_map_ok h
  exact ⟨x', h1, h2.symm⟩

theorem cstr_inj {c c' : List Char} (h : cstr c = cstr c') : c = c' := PV.str.inj h

/-- what `Gen.set_vt … = .ok (cstr c)` says about the model. -/
theorem setVt_of_gen {s c : List Char} {n fuel : Nat} (hn : 1 ≤ n) (hf : 2 * n + 2 ≤ fuel)
    (h : Gen.set_vt fuel (cstr s) (.int (n : Int)) = .ok (cstr c)) : setVt s n = .ok c := by
  rw [tie_set_vt s n fuel hn hf] at h
  obtain ⟨c0, h1, h2⟩ := map_ok_inv h
  rw [h1, cstr_inj h2]

theorem isAcgt_of_setVt {s c : List Char} {n : Nat} (h : setVt s n = .ok c) : IsAcgt s := by
  apply Classical.byContradiction
  intro hs
  rw [setVt_err n hs] at h
  cases h

/-- the check component of an `.ok` result of `encode`. -/
theorem encode_ok_check {a : Acc} {tbl : Option Tbl} {v : Int} {bits : List Nat} {fast : Bool}
    {n fuel : Nat} {s : List Char} {c : Option (List Char)}
    (h : encode a tbl v bits fast n fuel = .ok (s, c)) :
    (n = 0 ∧ c = none) ∨ (0 < n ∧ ∃ c', c = some c' ∧ setVt s n = .ok c') := by
  have key : ∀ x : R (List Char),
      (do let s ← x
          if n > 0 then
            let c ← setVt s n
            pure (s, some c)
          else pure (s, none) : R (List Char × Option (List Char))) = .ok (s, c) →
      (n = 0 ∧ c = none) ∨ (0 < n ∧ ∃ c', c = some c' ∧ setVt s n = .ok c') := by
    intro x h
    cases x with
    | error e => cases h
    | ok s0 =>
      simp only [bind, Except.bind, pure, Except.pure] at h
      by_cases hv : n > 0
      · rw [if_pos hv] at h
        cases hc : setVt s0 n with
        | error e => rw [hc] at h; cases h
        | ok c0 =>
          rw [hc] at h
          simp only [Except.ok.injEq, Prod.mk.injEq] at h
          obtain ⟨rfl, rfl⟩ := h
          exact .inr ⟨hv, c0, rfl, hc⟩
      · rw [if_neg hv] at h
        simp only [Except.ok.injEq, Prod.mk.injEq] at h
        obtain ⟨rfl, rfl⟩ := h
        exact .inl ⟨by omega, rfl⟩
  cases fast with
  | false => exact key (encodeNormalLoop a tbl fuel v (bitToNumberStr bits)) h
  | true => exact key (encodeFastLoop a tbl fuel v bits) h

/-- every emitted nucleotide costs one unit of fuel. -/
theorem encode_length {a : Acc} {tbl : Option Tbl} {v : Int} {bits : List Nat} {fast : Bool}
    {n fuel : Nat} {s : List Char} {c : Option (List Char)} (hb : IsBits bits)
    (h : encode a tbl v bits fast n fuel = .ok (s, c)) : s.length + 1 ≤ fuel := by
  cases fast with
  | false => exact Tight.encodeNat_length a tbl _ _ _ _ (cn_encode_normal_ok hb h).1
  | true => exact Tight.encodeFast_length a tbl _ _ _ _ (cf_encode_fast_ok h).1

/-- more fuel does not change an `.ok` result of normal-mode `encode`. -/
theorem encode_normal_mono {a : Acc} {tbl : Option Tbl} {v : Int} {bits : List Nat} {n fuel : Nat}
    {r : List Char × Option (List Char)} (hb : IsBits bits)
    (h : encode a tbl v bits false n fuel = .ok r) (d : Nat) :
    encode a tbl v bits false n (fuel + d) = .ok r := by
  rw [cn_encode_normal_eq a tbl v bits n _ hb] at h ⊢
  cases he : encodeNat a tbl fuel v (bitToNumberInt bits) with
  | error e => rw [he] at h; cases h
  | ok s =>
    rw [he] at h
    rw [cn_encodeNat_mono a tbl _ _ _ _ d he]
    exact h

/-- `C01_total_fast` with any fuel from `encodeFuel` on. -/
theorem encode_total_fast (a : Acc) (tbl : Option Tbl) (v : Int) (bits : List Nat) (n fuel : Nat)
    (hb : IsBits bits) (hg : a.GoodFrom v) (h3 : a.NoDeg3From v) (hf : encodeFuel a bits ≤ fuel) :
    ∃ s c, encode a tbl v bits true n fuel = .ok (s, c) := by
  obtain ⟨s, hs⟩ := cf_encode_total a tbl bits.length bits v fuel (Nat.le_refl _) hb hg h3 hf
  have hw := (cf_encode_walkBitsD a tbl _ v bits s hb hs).1
  unfold encode
  simp only [if_true, hs, bind, Except.bind, pure, Except.pure]
  by_cases hv : n > 0
  · rw [if_pos hv, setVt_ok_vt n (cf_isAcgt_of_isWalk a v s hw)]
    exact ⟨_, _, rfl⟩
  · rw [if_neg hv]
    exact ⟨_, _, rfl⟩

/-- the length of the check `encode` returns, as the decoder's fuel bound counts it. -/
theorem check_length {s : List Char} {c : Option (List Char)} {n : Nat}
    (h : (n = 0 ∧ c = none) ∨ (0 < n ∧ ∃ c', c = some c' ∧ setVt s n = .ok c')) :
    (c.map List.length).getD 0 = n ∧ ∀ c', c = some c' → c'.length = n ∧ c' ≠ [] := by
  rcases h with ⟨h0, rfl⟩ | ⟨hn, c', rfl, hc⟩
  · exact ⟨h0.symm, fun _ h => by cases h⟩
  · have hl := setVt_length hn hc
    refine ⟨hl, fun c'' h => ?_⟩
    cases h
    refine ⟨hl, fun h => ?_⟩
    rw [h] at hl
    simp at hl
    omega

/-- the round trip behind C01: an `.ok` result of the model `encode` is decoded by the generated
`decode` to the message. -/
theorem decode_of_encode {a : Acc} {tbl : Option Tbl} {v : Nat} {m : List Nat} {fast : Bool} {n fuel : Nat}
    {s : List Char} {c : Option (List Char)}
    (ha : a.WF) (hv : v < a.size) (ht : TblOK tbl a) (hm : IsBits m)
    (he : encode a tbl (v : Int) m fast n fuel = .ok (s, c)) (fuel' : Nat) (vb' : Bool)
    (hf' : 4 * s.length + 2 * n + 10 ≤ fuel') :
    Gen.decode fuel' (cstr s) (.int (m.length : Int)) (accPV a) (.int (v : Int)) (.bool fast) (chkPV c)
      (tblPV tbl) (.bool vb') = .ok (bitsPV m) := by
  obtain ⟨hlen, hne⟩ := check_length (encode_ok_check he)
  have hdec : Dsw.decode a tbl (v : Int) s m.length fast c = .ok m := by
    cases fast with
    | false => exact C01_normal a tbl v m n fuel s c hm he
    | true => exact C01_fast a tbl v m n fuel s c hm he
  rw [tie_decode a tbl v s m.length fast c fuel' vb' ha hv ht (fun c' hc => (hne c' hc).2)
    (by rw [hlen]; exact hf'), hdec]
  rfl

theorem toBool_map {α β} (x : R α) (f : α → β) : (x.map f).toBool = x.toBool := by
  cases x <;> rfl

/-! ### the concrete input of the examples

The GC-balanced order-2 accessor of the docstrings (`gcBalanced2`), start vertex 1 (`AC`), no table,
the message `01010101`; `vt_length = 5`.  The `example`s beside the theorems instantiate every
hypothesis on it (so no theorem is vacuous); where a hypothesis is "the generated `encode` returned
`r`", it is discharged by `gc_encode_normal` / `gc_encode_fast` (the tie plus kernel evaluation of the
model; the generated code itself is not evaluated). -/

theorem gc_wf : gcBalanced2.WF := by unfold Acc.WF; decide +kernel
theorem gc_lt : (1 : Nat) < gcBalanced2.size := by decide +kernel
theorem gc_good : gcBalanced2.GoodFrom ((1 : Nat) : Int) :=
  C03_goodFrom 2 2 _ (by decide) (by decide) (by decide) _ _
    (show connectCodingGraph 2 #[false, true, true, false, true, false, false, true,
      true, false, false, true, false, true, true, false] 2 = .ok ([1, 2, 4, 7, 8, 11, 13, 14], gcBalanced2) by
      decide +kernel) 1 (by decide)

theorem noDeg3From_of_goodFrom {a : Acc} {v : Int} (hg : a.GoodFrom v)
    (h : ∀ u : Nat, u < a.size → a.outDeg (u : Int) ≠ 3) : a.NoDeg3From v := by
  intro u hu
  obtain ⟨⟨h0, h1⟩, _⟩ := hg u hu
  obtain ⟨k, rfl⟩ := Int.eq_ofNat_of_zero_le h0
  exact h k (by exact_mod_cast h1)

theorem gc_noDeg3 : gcBalanced2.NoDeg3From ((1 : Nat) : Int) :=
  noDeg3From_of_goodFrom gc_good (by decide +kernel)
theorem gc_distinct : AllDistinct gcBalanced2 none := fun v => distinctKeys_none _ v
theorem msg_bits : IsBits [0, 1, 0, 1, 0, 1, 0, 1] := by unfold IsBits; decide

/-- a shuffle table for the table-independence example: every row is the permutation `3 1 0 2`. -/
def gcTable : Tbl := Array.replicate 16 #[3, 1, 0, 2]
theorem gcTable_ok : TblOK (some gcTable) gcBalanced2 := by
  intro t h
  cases h
  exact ⟨by decide +kernel, by decide +kernel⟩

/-- `encode([0,1,0,1,0,1,0,1], accessor, 1, vt_length=5)` of the generated code returns
`("TCTCTCT", "TAAGC")`. -/
theorem gc_encode_normal :
    Gen.encode 200 (bitsPV [0, 1, 0, 1, 0, 1, 0, 1]) (accPV gcBalanced2) (.int 1) (.bool false) (.int 5)
      PV.none (.bool false) (.bool false) = .ok (.tup [.str "TCTCTCT".toList, .str "TAAGC".toList]) :=
  (tie_encode gcBalanced2 none 1 _ false 5 200 false gc_wf gc_lt (tblOK_none _) (isBits_le_one msg_bits)
    (by decide)).trans
    (by rw [show encode gcBalanced2 none ((1 : Nat) : Int) [0, 1, 0, 1, 0, 1, 0, 1] false 5 200 =
          .ok ("TCTCTCT".toList, some "TAAGC".toList) by decide +kernel]; rfl)

/-- … without a check it returns `"TCTCTCT"`. -/
theorem gc_encode_normal0 :
    Gen.encode 200 (bitsPV [0, 1, 0, 1, 0, 1, 0, 1]) (accPV gcBalanced2) (.int 1) (.bool false) (.int 0)
      PV.none (.bool false) (.bool false) = .ok (.str "TCTCTCT".toList) :=
  (tie_encode gcBalanced2 none 1 _ false 0 200 false gc_wf gc_lt (tblOK_none _) (isBits_le_one msg_bits)
    (by decide)).trans
    (by rw [show encode gcBalanced2 none ((1 : Nat) : Int) [0, 1, 0, 1, 0, 1, 0, 1] false 0 200 =
          .ok ("TCTCTCT".toList, none) by decide +kernel]; rfl)

/-- … and with `is_faster=True` it returns `("AGAGAGAG", "AAATA")`. -/
theorem gc_encode_fast :
    Gen.encode 200 (bitsPV [0, 1, 0, 1, 0, 1, 0, 1]) (accPV gcBalanced2) (.int 1) (.bool true) (.int 5)
      PV.none (.bool false) (.bool false) = .ok (.tup [.str "AGAGAGAG".toList, .str "AAATA".toList]) :=
  (tie_encode gcBalanced2 none 1 _ true 5 200 false gc_wf gc_lt (tblOK_none _) (isBits_le_one msg_bits)
    (by decide)).trans
    (by rw [show encode gcBalanced2 none ((1 : Nat) : Int) [0, 1, 0, 1, 0, 1, 0, 1] true 5 200 =
          .ok ("AGAGAGAG".toList, some "AAATA".toList) by decide +kernel]; rfl)

theorem gc_set_vt : Gen.set_vt 12 (cstr "TCTCTCT".toList) (.int 5) = .ok (cstr "TAAGC".toList) :=
  (tie_set_vt _ 5 12 (by decide) (by decide)).trans
    (by rw [show setVt "TCTCTCT".toList 5 = .ok "TAAGC".toList by decide +kernel]; rfl)
theorem gc_set_vt' : Gen.set_vt 12 (cstr "TCTCTAT".toList) (.int 5) = .ok (cstr "GAAGC".toList) :=
  (tie_set_vt _ 5 12 (by decide) (by decide)).trans
    (by rw [show setVt "TCTCTAT".toList 5 = .ok "GAAGC".toList by decide +kernel]; rfl)

end SwCor

open SwCor

/-! ## C01 — encode then decode returns the original message -/

/-- both modes at once: whenever the generated `encode` returns `r`, `r` is the strand `s` (with the
check `c` iff `vt_length > 0`), the strand has fewer symbols than the encoder had fuel, and the
generated `decode` — same graph, start, table and mode, `bit_length = len(message)`, the returned
check — returns the message, for every fuel from `4·len(s) + 2·vt_length + 10` on and either
`verbose`. -/
theorem gen_C01_roundtrip (a : Acc) (tbl : Option Tbl) (v : Nat) (m : List Nat) (fast : Bool)
    (n fuel : Nat) (vb : Bool) (r : PV)
    (ha : a.WF) (hv : v < a.size) (ht : TblOK tbl a) (hm : IsBits m) (hf : 2 * n + 3 ≤ fuel)
    (h : Gen.encode fuel (bitsPV m) (accPV a) (.int (v : Int)) (.bool fast) (.int (n : Int)) (tblPV tbl)
      (.bool false) (.bool vb) = .ok r) :
    ∃ (s : List Char) (c : Option (List Char)), r = encResultPV (s, c) ∧ s.length + 1 ≤ fuel ∧
      (n = 0 → c = none) ∧ (0 < n → ∃ c', c = some c' ∧ c'.length = n) ∧
      ∀ (fuel' : Nat) (vb' : Bool), 4 * s.length + 2 * n + 10 ≤ fuel' →
        Gen.decode fuel' (cstr s) (.int (m.length : Int)) (accPV a) (.int (v : Int)) (.bool fast) (chkPV c)
          (tblPV tbl) (.bool vb') = .ok (bitsPV m) := by
  rw [tie_encode a tbl v m fast n fuel vb ha hv ht (isBits_le_one hm) hf] at h
  obtain ⟨⟨s, c⟩, he, hr⟩ := map_ok_inv h
  have hck := encode_ok_check he
  obtain ⟨hlen, hne⟩ := check_length hck
  refine ⟨s, c, hr, encode_length hm he, ?_, ?_, decode_of_encode ha hv ht hm he⟩
  · intro h0
    rcases hck with ⟨_, hc⟩ | ⟨hn, _⟩
    · exact hc
    · omega
  · intro hn
    rcases hck with ⟨h0, _⟩ | ⟨_, c', hc, _⟩
    · omega
    · exact ⟨c', hc, (hne c' hc).1⟩

example (r : PV) (h : Gen.encode 200 (bitsPV [0, 1, 0, 1, 0, 1, 0, 1]) (accPV gcBalanced2) (.int 1) (.bool true)
      (.int 5) PV.none (.bool false) (.bool true) = .ok r) :
    ∃ (s : List Char) (c : Option (List Char)), r = encResultPV (s, c) ∧ s.length + 1 ≤ 200 ∧
      (5 = 0 → c = none) ∧ (0 < 5 → ∃ c', c = some c' ∧ c'.length = 5) ∧
      ∀ (fuel' : Nat) (vb' : Bool), 4 * s.length + 2 * 5 + 10 ≤ fuel' →
        Gen.decode fuel' (cstr s) (.int 8) (accPV gcBalanced2) (.int 1) (.bool true) (chkPV c) PV.none
          (.bool vb') = .ok (bitsPV [0, 1, 0, 1, 0, 1, 0, 1]) :=
  gen_C01_roundtrip gcBalanced2 none 1 _ true 5 200 true r gc_wf gc_lt (tblOK_none _) msg_bits (by decide) h

/-- arbitrary-precision mode (`is_faster=False`), any mixture of out-degrees, any table, with or
without check — `C01_normal` about the generated code. -/
theorem gen_C01_normal (a : Acc) (tbl : Option Tbl) (v : Nat) (m : List Nat) (n fuel : Nat) (vb : Bool)
    (r : PV) (ha : a.WF) (hv : v < a.size) (ht : TblOK tbl a) (hm : IsBits m) (hf : 2 * n + 3 ≤ fuel)
    (h : Gen.encode fuel (bitsPV m) (accPV a) (.int (v : Int)) (.bool false) (.int (n : Int)) (tblPV tbl)
      (.bool false) (.bool vb) = .ok r) :
    ∃ (s : List Char) (c : Option (List Char)), r = encResultPV (s, c) ∧ s.length + 1 ≤ fuel ∧
      (n = 0 → c = none) ∧ (0 < n → ∃ c', c = some c' ∧ c'.length = n) ∧
      ∀ (fuel' : Nat) (vb' : Bool), 4 * s.length + 2 * n + 10 ≤ fuel' →
        Gen.decode fuel' (cstr s) (.int (m.length : Int)) (accPV a) (.int (v : Int)) (.bool false) (chkPV c)
          (tblPV tbl) (.bool vb') = .ok (bitsPV m) :=
  gen_C01_roundtrip a tbl v m false n fuel vb r ha hv ht hm hf h

/-- the docstring round trip, through the generated code: `decode("TCTCTCT", 8, …, vt_check="TAAGC")`. -/
example : Gen.decode 48 (.str "TCTCTCT".toList) (.int 8) (accPV gcBalanced2) (.int 1) (.bool false)
    (.str "TAAGC".toList) PV.none (.bool true) = .ok (bitsPV [0, 1, 0, 1, 0, 1, 0, 1]) := by
  obtain ⟨s, c, hr, _, _, _, hd⟩ := gen_C01_normal gcBalanced2 none 1 _ 5 200 false _ gc_wf gc_lt (tblOK_none _)
    msg_bits (by decide) gc_encode_normal
  cases c with
  | none => cases hr
  | some c => cases hr; exact hd 48 true (by decide)

/-- fast mode (`is_faster=True`; an `.ok` result of `encode` already implies that no out-degree-3
vertex was met), including odd message lengths — `C01_fast` about the generated code. -/
theorem gen_C01_fast (a : Acc) (tbl : Option Tbl) (v : Nat) (m : List Nat) (n fuel : Nat) (vb : Bool)
    (r : PV) (ha : a.WF) (hv : v < a.size) (ht : TblOK tbl a) (hm : IsBits m) (hf : 2 * n + 3 ≤ fuel)
    (h : Gen.encode fuel (bitsPV m) (accPV a) (.int (v : Int)) (.bool true) (.int (n : Int)) (tblPV tbl)
      (.bool false) (.bool vb) = .ok r) :
    ∃ (s : List Char) (c : Option (List Char)), r = encResultPV (s, c) ∧ s.length + 1 ≤ fuel ∧
      (n = 0 → c = none) ∧ (0 < n → ∃ c', c = some c' ∧ c'.length = n) ∧
      ∀ (fuel' : Nat) (vb' : Bool), 4 * s.length + 2 * n + 10 ≤ fuel' →
        Gen.decode fuel' (cstr s) (.int (m.length : Int)) (accPV a) (.int (v : Int)) (.bool true) (chkPV c)
          (tblPV tbl) (.bool vb') = .ok (bitsPV m) :=
  gen_C01_roundtrip a tbl v m true n fuel vb r ha hv ht hm hf h

example : Gen.decode 52 (.str "AGAGAGAG".toList) (.int 8) (accPV gcBalanced2) (.int 1) (.bool true)
    (.str "AAATA".toList) PV.none (.bool false) = .ok (bitsPV [0, 1, 0, 1, 0, 1, 0, 1]) := by
  obtain ⟨s, c, hr, _, _, _, hd⟩ := gen_C01_fast gcBalanced2 none 1 _ 5 200 false _ gc_wf gc_lt (tblOK_none _)
    msg_bits (by decide) gc_encode_fast
  cases c with
  | none => cases hr
  | some c => cases hr; exact hd 52 false (by decide)

/-- the case `vt_length = 0` spelled out, either mode: `encode` returns a `str`, and `decode` of it
with `vt_check=None` returns the message; the decoder's fuel bound is in terms of the encoder's. -/
theorem gen_C01_nocheck (a : Acc) (tbl : Option Tbl) (v : Nat) (m : List Nat) (fast : Bool)
    (fuel fuel' : Nat) (vb vb' : Bool) (r : PV)
    (ha : a.WF) (hv : v < a.size) (ht : TblOK tbl a) (hm : IsBits m) (hf : 3 ≤ fuel)
    (hf' : 4 * fuel + 6 ≤ fuel')
    (h : Gen.encode fuel (bitsPV m) (accPV a) (.int (v : Int)) (.bool fast) (.int 0) (tblPV tbl)
      (.bool false) (.bool vb) = .ok r) :
    ∃ s : List Char, r = .str s ∧
      Gen.decode fuel' (.str s) (.int (m.length : Int)) (accPV a) (.int (v : Int)) (.bool fast) PV.none
        (tblPV tbl) (.bool vb') = .ok (bitsPV m) := by
  obtain ⟨s, c, hr, hl, h0, _, hd⟩ := gen_C01_roundtrip a tbl v m fast 0 fuel vb r ha hv ht hm (by omega) h
  have hc := h0 rfl
  subst hc
  exact ⟨s, hr, hd fuel' vb' (by omega)⟩

example : Gen.decode 806 (.str "TCTCTCT".toList) (.int 8) (accPV gcBalanced2) (.int 1) (.bool false) PV.none
    PV.none (.bool false) = .ok (bitsPV [0, 1, 0, 1, 0, 1, 0, 1]) := by
  obtain ⟨s, hr, hd⟩ := gen_C01_nocheck gcBalanced2 none 1 _ false 200 806 false false _ gc_wf gc_lt
    (tblOK_none _) msg_bits (by decide) (by decide) gc_encode_normal0
  cases hr
  exact hd

/-- the case `vt_length > 0` spelled out, either mode: `encode` returns the pair `(strand, check)`,
the check has `vt_length` symbols, and `decode` of the strand with that check returns the message. -/
theorem gen_C01_check (a : Acc) (tbl : Option Tbl) (v : Nat) (m : List Nat) (fast : Bool)
    (n fuel fuel' : Nat) (vb vb' : Bool) (r : PV)
    (ha : a.WF) (hv : v < a.size) (ht : TblOK tbl a) (hm : IsBits m) (hn : 0 < n) (hf : 2 * n + 3 ≤ fuel)
    (hf' : 4 * fuel + 2 * n + 6 ≤ fuel')
    (h : Gen.encode fuel (bitsPV m) (accPV a) (.int (v : Int)) (.bool fast) (.int (n : Int)) (tblPV tbl)
      (.bool false) (.bool vb) = .ok r) :
    ∃ s c : List Char, r = .tup [.str s, .str c] ∧ c.length = n ∧
      Gen.decode fuel' (.str s) (.int (m.length : Int)) (accPV a) (.int (v : Int)) (.bool fast) (.str c)
        (tblPV tbl) (.bool vb') = .ok (bitsPV m) := by
  obtain ⟨s, c, hr, hl, _, h1, hd⟩ := gen_C01_roundtrip a tbl v m fast n fuel vb r ha hv ht hm hf h
  obtain ⟨c', hc, hcl⟩ := h1 hn
  subst hc
  exact ⟨s, c', hr, hcl, hd fuel' vb' (by omega)⟩

example : Gen.decode 816 (.str "AGAGAGAG".toList) (.int 8) (accPV gcBalanced2) (.int 1) (.bool true)
    (.str "AAATA".toList) PV.none (.bool true) = .ok (bitsPV [0, 1, 0, 1, 0, 1, 0, 1]) := by
  obtain ⟨s, c, hr, _, hd⟩ := gen_C01_check gcBalanced2 none 1 _ true 5 200 816 false true _ gc_wf gc_lt
    (tblOK_none _) msg_bits (by decide) (by decide) (by decide) gc_encode_fast
  cases hr
  exact hd

/-- on a graph in which every vertex reachable from the start has an arc and can reach a branching
vertex, the generated `encode` returns in normal mode, for every fuel from `L·|V| + 1` (and
`2·vt_length + 3`) on — `C01_total_normal` about the generated code. -/
theorem gen_C01_total_normal (a : Acc) (tbl : Option Tbl) (v : Nat) (m : List Nat) (n fuel : Nat)
    (vb : Bool) (ha : a.WF) (hv : v < a.size) (ht : TblOK tbl a) (hm : IsBits m)
    (hg : a.GoodFrom (v : Int)) (hf : 2 * n + 3 ≤ fuel) (hfe : encodeFuel a m ≤ fuel) :
    ∃ (s : List Char) (c : Option (List Char)),
      Gen.encode fuel (bitsPV m) (accPV a) (.int (v : Int)) (.bool false) (.int (n : Int)) (tblPV tbl)
        (.bool false) (.bool vb) = .ok (encResultPV (s, c)) := by
  obtain ⟨s, c, h⟩ := C01_total_normal a tbl v m n hm hg
  have h' := encode_normal_mono hm h (fuel - encodeFuel a m)
  rw [Nat.add_sub_cancel' hfe] at h'
  exact ⟨s, c, by rw [tie_encode a tbl v m false n fuel vb ha hv ht (isBits_le_one hm) hf, h']; rfl⟩

/-- `encodeFuel gcBalanced2 m = 8 · 16 + 1 = 129`. -/
example : ∃ (s : List Char) (c : Option (List Char)),
    Gen.encode 129 (bitsPV [0, 1, 0, 1, 0, 1, 0, 1]) (accPV gcBalanced2) (.int 1) (.bool false) (.int 5) PV.none
      (.bool false) (.bool false) = .ok (encResultPV (s, c)) :=
  gen_C01_total_normal gcBalanced2 none 1 _ 5 129 false gc_wf gc_lt (tblOK_none _) msg_bits gc_good
    (by decide) (by decide +kernel)

/-- same in fast mode on graphs without out-degree 3 — `C01_total_fast` about the generated code. -/
theorem gen_C01_total_fast (a : Acc) (tbl : Option Tbl) (v : Nat) (m : List Nat) (n fuel : Nat)
    (vb : Bool) (ha : a.WF) (hv : v < a.size) (ht : TblOK tbl a) (hm : IsBits m)
    (hg : a.GoodFrom (v : Int)) (h3 : a.NoDeg3From (v : Int)) (hf : 2 * n + 3 ≤ fuel)
    (hfe : encodeFuel a m ≤ fuel) :
    ∃ (s : List Char) (c : Option (List Char)),
      Gen.encode fuel (bitsPV m) (accPV a) (.int (v : Int)) (.bool true) (.int (n : Int)) (tblPV tbl)
        (.bool false) (.bool vb) = .ok (encResultPV (s, c)) := by
  obtain ⟨s, c, h⟩ := encode_total_fast a tbl v m n fuel hm hg h3 hfe
  exact ⟨s, c, by rw [tie_encode a tbl v m true n fuel vb ha hv ht (isBits_le_one hm) hf, h]; rfl⟩

example : ∃ (s : List Char) (c : Option (List Char)),
    Gen.encode 129 (bitsPV [0, 1, 0, 1, 0, 1, 0, 1]) (accPV gcBalanced2) (.int 1) (.bool true) (.int 5) PV.none
      (.bool false) (.bool false) = .ok (encResultPV (s, c)) :=
  gen_C01_total_fast gcBalanced2 none 1 _ 5 129 false gc_wf gc_lt (tblOK_none _) msg_bits gc_good gc_noDeg3
    (by decide) (by decide +kernel)

/-- totality and round trip together: on such a graph `decode(encode(m)) = m` for the generated code,
with fuels that depend on the inputs only. -/
theorem gen_C01_total_roundtrip (a : Acc) (tbl : Option Tbl) (v : Nat) (m : List Nat) (fast : Bool)
    (n fuel fuel' : Nat) (vb vb' : Bool) (ha : a.WF) (hv : v < a.size) (ht : TblOK tbl a) (hm : IsBits m)
    (hg : a.GoodFrom (v : Int)) (h3 : fast = true → a.NoDeg3From (v : Int)) (hf : 2 * n + 3 ≤ fuel)
    (hfe : encodeFuel a m ≤ fuel) (hf' : 4 * fuel + 2 * n + 6 ≤ fuel') :
    ∃ (s : List Char) (c : Option (List Char)),
      Gen.encode fuel (bitsPV m) (accPV a) (.int (v : Int)) (.bool fast) (.int (n : Int)) (tblPV tbl)
        (.bool false) (.bool vb) = .ok (encResultPV (s, c)) ∧
      Gen.decode fuel' (cstr s) (.int (m.length : Int)) (accPV a) (.int (v : Int)) (.bool fast) (chkPV c)
        (tblPV tbl) (.bool vb') = .ok (bitsPV m) := by
  have hex : ∃ s c, encode a tbl (v : Int) m fast n fuel = .ok (s, c) := by
    cases fast with
    | false =>
      obtain ⟨s, c, h⟩ := C01_total_normal a tbl v m n hm hg
      have h' := encode_normal_mono hm h (fuel - encodeFuel a m)
      rw [Nat.add_sub_cancel' hfe] at h'
      exact ⟨s, c, h'⟩
    | true => exact encode_total_fast a tbl v m n fuel hm hg (h3 rfl) hfe
  obtain ⟨s, c, he⟩ := hex
  have hl := encode_length hm he
  refine ⟨s, c, ?_, decode_of_encode ha hv ht hm he fuel' vb' (by omega)⟩
  rw [tie_encode a tbl v m fast n fuel vb ha hv ht (isBits_le_one hm) hf, he]
  rfl

example : ∃ (s : List Char) (c : Option (List Char)),
    Gen.encode 129 (bitsPV [0, 1, 0, 1, 0, 1, 0, 1]) (accPV gcBalanced2) (.int 1) (.bool true) (.int 5) PV.none
      (.bool false) (.bool false) = .ok (encResultPV (s, c)) ∧
    Gen.decode 532 (cstr s) (.int 8) (accPV gcBalanced2) (.int 1) (.bool true) (chkPV c) PV.none
      (.bool false) = .ok (bitsPV [0, 1, 0, 1, 0, 1, 0, 1]) :=
  gen_C01_total_roundtrip gcBalanced2 none 1 _ true 5 129 532 false false gc_wf gc_lt (tblOK_none _) msg_bits
    gc_good (fun _ => gc_noDeg3) (by decide) (by decide +kernel) (by decide)

/-- the empty and the all-zero message are encoded as the empty strand in normal mode and decoded
back — `C01_zero` about the generated code. -/
theorem gen_C01_zero (a : Acc) (tbl : Option Tbl) (v : Nat) (n fuel : Nat) (vb : Bool)
    (ha : a.WF) (hv : v < a.size) (ht : TblOK tbl a) (hf : 10 ≤ fuel) :
    Gen.encode fuel (bitsPV (List.replicate n 0)) (accPV a) (.int (v : Int)) (.bool false) (.int 0)
      (tblPV tbl) (.bool false) (.bool vb) = .ok (.str []) ∧
    Gen.decode fuel (.str []) (.int (n : Int)) (accPV a) (.int (v : Int)) (.bool false) PV.none (tblPV tbl)
      (.bool vb) = .ok (bitsPV (List.replicate n 0)) := by
  obtain ⟨h1, h2⟩ := C01_zero a tbl v n
  have hb : IsBits (List.replicate n 0) := by
    intro b hb; rw [List.eq_of_mem_replicate hb]; omega
  have h1' := encode_normal_mono hb h1 (fuel - 1)
  rw [Nat.add_sub_cancel' (by omega : 1 ≤ fuel)] at h1'
  constructor
  · have := tie_encode a tbl v (List.replicate n 0) false 0 fuel vb ha hv ht (isBits_le_one hb) (by omega)
    rw [h1'] at this
    exact this
  · have := tie_decode a tbl v [] n false none fuel vb ha hv ht (fun _ h => by cases h)
      (by simp only [List.length_nil, Option.map_none, Option.getD_none]; omega)
    rw [h2] at this
    exact this

example : Gen.encode 10 (bitsPV (List.replicate 8 0)) (accPV gcBalanced2) (.int 1) (.bool false) (.int 0)
      PV.none (.bool false) (.bool false) = .ok (.str []) ∧
    Gen.decode 10 (.str []) (.int 8) (accPV gcBalanced2) (.int 1) (.bool false) PV.none PV.none
      (.bool false) = .ok (bitsPV (List.replicate 8 0)) :=
  gen_C01_zero gcBalanced2 none 1 8 10 false gc_wf gc_lt (tblOK_none _) (by decide)

/-! ## C05 — the strand is the documented mixed-radix walk -/

/-- normal mode: whatever the generated `encode` returns is the walk of the published scheme
(`IsEncoding`, stated with the documented digit `arcRank`) for the message value —
`C05_encode_meets_spec` about the generated code. -/
theorem gen_C05_encode_meets_spec (a : Acc) (tbl : Option Tbl) (v : Nat) (m : List Nat) (n fuel : Nat)
    (vb : Bool) (r : PV) (ha : a.WF) (hv : v < a.size) (ht : TblOK tbl a) (hm : IsBits m)
    (hd : AllDistinct a tbl) (hf : 2 * n + 3 ≤ fuel)
    (h : Gen.encode fuel (bitsPV m) (accPV a) (.int (v : Int)) (.bool false) (.int (n : Int)) (tblPV tbl)
      (.bool false) (.bool vb) = .ok r) :
    ∃ (s : List Char) (c : Option (List Char)), r = encResultPV (s, c) ∧
      IsEncoding a tbl (v : Int) (bitToNumberInt m) s := by
  rw [tie_encode a tbl v m false n fuel vb ha hv ht (isBits_le_one hm) hf] at h
  obtain ⟨⟨s, c⟩, he, hr⟩ := map_ok_inv h
  exact ⟨s, c, hr, C05_encode_meets_spec a tbl v m n fuel s c hm hd he⟩

/-- the strand the generated `encode` returns for `01010101` (value 85) meets the specification. -/
example : IsEncoding gcBalanced2 none 1 85 "TCTCTCT".toList := by
  obtain ⟨s, c, hr, hs⟩ := gen_C05_encode_meets_spec gcBalanced2 none 1 _ 5 200 false _ gc_wf gc_lt
    (tblOK_none _) msg_bits gc_distinct (by decide) gc_encode_normal
  cases c with
  | none => cases hr
  | some c => cases hr; exact hs

/-- the scheme determines what the generated `encode` returns: ANY strand meeting the specification
for the message value is the strand returned (`C05_spec_unique` applied to the generated code). -/
theorem gen_C05_spec_unique (a : Acc) (tbl : Option Tbl) (v : Nat) (m : List Nat) (n fuel : Nat)
    (vb : Bool) (r : PV) (s' : List Char) (ha : a.WF) (hv : v < a.size) (ht : TblOK tbl a) (hm : IsBits m)
    (hd : AllDistinct a tbl) (hf : 2 * n + 3 ≤ fuel)
    (h : Gen.encode fuel (bitsPV m) (accPV a) (.int (v : Int)) (.bool false) (.int (n : Int)) (tblPV tbl)
      (.bool false) (.bool vb) = .ok r)
    (h' : IsEncoding a tbl (v : Int) (bitToNumberInt m) s') :
    ∃ c : Option (List Char), r = encResultPV (s', c) := by
  obtain ⟨s, c, hr, hs⟩ := gen_C05_encode_meets_spec a tbl v m n fuel vb r ha hv ht hm hd hf h
  have := C05_spec_unique a tbl v _ s s' hd hs h'
  subst this
  exact ⟨c, hr⟩

example (r : PV) (h : Gen.encode 200 (bitsPV [0, 1, 0, 1, 0, 1, 0, 1]) (accPV gcBalanced2) (.int 1) (.bool false)
      (.int 5) PV.none (.bool false) (.bool false) = .ok r) :
    ∃ c : Option (List Char), r = encResultPV ("TCTCTCT".toList, c) :=
  gen_C05_spec_unique gcBalanced2 none 1 _ 5 200 false r _ gc_wf gc_lt (tblOK_none _) msg_bits gc_distinct
    (by decide) h
    (C05_encode_meets_spec gcBalanced2 none 1 [0, 1, 0, 1, 0, 1, 0, 1] 0 200 _ none msg_bits gc_distinct
      (by decide +kernel))

/-- the generated `decode` (normal mode, no check) of any walk returns the walk's mixed-radix value
big-endian at width `L` — `C05_decode_value` about the generated code. -/
theorem gen_C05_decode_value (a : Acc) (tbl : Option Tbl) (v : Nat) (s : List Char) (L fuel : Nat)
    (vb : Bool) (ha : a.WF) (hv : v < a.size) (ht : TblOK tbl a) (hd : AllDistinct a tbl)
    (hw : isWalk a (v : Int) s = true) (hf : 4 * s.length + 10 ≤ fuel) :
    Gen.decode fuel (cstr s) (.int (L : Int)) (accPV a) (.int (v : Int)) (.bool false) PV.none (tblPV tbl)
      (.bool vb) = .ok (bitsPV (numberToBitInt (walkValue a tbl (v : Int) s) L)) :=
  (tie_decode a tbl v s L false none fuel vb ha hv ht (fun _ h => by cases h)
    (by simp only [Option.map_none, Option.getD_none]; omega)).trans
    (by rw [C05_decode_value a tbl v s L hd hw]; rfl)

example : Gen.decode 38 (cstr "TCTCTCT".toList) (.int 8) (accPV gcBalanced2) (.int 1) (.bool false) PV.none
    PV.none (.bool false) = .ok (bitsPV (numberToBitInt (walkValue gcBalanced2 none 1 "TCTCTCT".toList) 8)) :=
  gen_C05_decode_value gcBalanced2 none 1 _ 8 38 false gc_wf gc_lt (tblOK_none _) gc_distinct
    (by decide +kernel) (by decide)
example : walkValue gcBalanced2 none 1 "TCTCTCT".toList = 85 := by decide +kernel

/-- fast mode: the strand the generated `encode` returns is a walk, and the bits it carries are the
message followed by at most one padding zero — `C05_fast_meets_spec` about the generated code. -/
theorem gen_C05_fast_meets_spec (a : Acc) (tbl : Option Tbl) (v : Nat) (m : List Nat) (n fuel : Nat)
    (vb : Bool) (r : PV) (ha : a.WF) (hv : v < a.size) (ht : TblOK tbl a) (hm : IsBits m)
    (hd : AllDistinct a tbl) (hf : 2 * n + 3 ≤ fuel)
    (h : Gen.encode fuel (bitsPV m) (accPV a) (.int (v : Int)) (.bool true) (.int (n : Int)) (tblPV tbl)
      (.bool false) (.bool vb) = .ok r) :
    ∃ (s : List Char) (c : Option (List Char)), r = encResultPV (s, c) ∧ isWalk a (v : Int) s = true ∧
      (walkBits a tbl (v : Int) s = m ∨ walkBits a tbl (v : Int) s = m ++ [0]) := by
  rw [tie_encode a tbl v m true n fuel vb ha hv ht (isBits_le_one hm) hf] at h
  obtain ⟨⟨s, c⟩, he, hr⟩ := map_ok_inv h
  exact ⟨s, c, hr, C05_fast_meets_spec a tbl v m n fuel s c hm hd he⟩

example : isWalk gcBalanced2 1 "AGAGAGAG".toList = true ∧
    (walkBits gcBalanced2 none 1 "AGAGAGAG".toList = [0, 1, 0, 1, 0, 1, 0, 1] ∨
      walkBits gcBalanced2 none 1 "AGAGAGAG".toList = [0, 1, 0, 1, 0, 1, 0, 1] ++ [0]) := by
  obtain ⟨s, c, hr, hs⟩ := gen_C05_fast_meets_spec gcBalanced2 none 1 _ 5 200 false _ gc_wf gc_lt
    (tblOK_none _) msg_bits gc_distinct (by decide) gc_encode_fast
  cases c with
  | none => cases hr
  | some c => cases hr; exact hs

/-- the generated `decode` in fast mode (no check) of a walk without out-degree-3 vertices whose bits
fit returns the carried bits, zero-padded to `L` — `C05_fast_decode_value` about the generated code. -/
theorem gen_C05_fast_decode_value (a : Acc) (tbl : Option Tbl) (v : Nat) (s : List Char) (L fuel : Nat)
    (vb : Bool) (ha : a.WF) (hv : v < a.size) (ht : TblOK tbl a) (hd : AllDistinct a tbl)
    (hw : isWalk a (v : Int) s = true)
    (h3 : ∀ i, i < s.length → a.outDeg (walkEnd a (v : Int) (s.take i)) ≠ 3)
    (hL : (walkBits a tbl (v : Int) s).length ≤ L) (hf : 4 * s.length + 10 ≤ fuel) :
    Gen.decode fuel (cstr s) (.int (L : Int)) (accPV a) (.int (v : Int)) (.bool true) PV.none (tblPV tbl)
      (.bool vb) =
      .ok (bitsPV (walkBits a tbl (v : Int) s ++
        List.replicate (L - (walkBits a tbl (v : Int) s).length) 0)) :=
  (tie_decode a tbl v s L true none fuel vb ha hv ht (fun _ h => by cases h)
    (by simp only [Option.map_none, Option.getD_none]; omega)).trans
    (by rw [C05_fast_decode_value a tbl v s L hd hw h3 hL]; rfl)

example : Gen.decode 42 (cstr "AGAGAGAG".toList) (.int 10) (accPV gcBalanced2) (.int 1) (.bool true) PV.none
    PV.none (.bool false) =
    .ok (bitsPV (walkBits gcBalanced2 none 1 "AGAGAGAG".toList ++
      List.replicate (10 - (walkBits gcBalanced2 none 1 "AGAGAGAG".toList).length) 0)) :=
  gen_C05_fast_decode_value gcBalanced2 none 1 _ 10 42 false gc_wf gc_lt (tblOK_none _) gc_distinct
    (by decide +kernel) (by decide +kernel) (by decide +kernel) (by decide)

/-! ## C06 — decoding accepts exactly the strands that are walks of the graph -/

/-- normal mode, any string (foreign characters included), any requested length, `vt_check=None` or
a non-empty check: the generated `decode` returns a bit array of exactly the requested length iff the
string is a walk and the check matches; otherwise `ValueError` and nothing else — `C06_normal` about
the generated code. -/
theorem gen_C06_normal (a : Acc) (tbl : Option Tbl) (v : Nat) (s : List Char) (L : Nat)
    (chk : Option (List Char)) (fuel : Nat) (vb : Bool)
    (ha : a.WF) (hv : v < a.size) (ht : TblOK tbl a) (hc : ∀ c, chk = some c → c ≠ [])
    (hf : 4 * s.length + 2 * (chk.map List.length).getD 0 + 10 ≤ fuel) :
    (isWalk a (v : Int) s = true ∧ CheckOk s chk →
        ∃ bits, Gen.decode fuel (cstr s) (.int (L : Int)) (accPV a) (.int (v : Int)) (.bool false)
          (chkPV chk) (tblPV tbl) (.bool vb) = .ok (bitsPV bits) ∧ bits.length = L) ∧
    (¬ (isWalk a (v : Int) s = true ∧ CheckOk s chk) →
        Gen.decode fuel (cstr s) (.int (L : Int)) (accPV a) (.int (v : Int)) (.bool false)
          (chkPV chk) (tblPV tbl) (.bool vb) = .error .valueError) := by
  rw [tie_decode a tbl v s L false chk fuel vb ha hv ht hc hf]
  obtain ⟨h1, h2⟩ := C06_normal a tbl v s L chk
  refine ⟨fun h => ?_, fun h => ?_⟩
  · obtain ⟨bits, hb, hl⟩ := h1 h
    exact ⟨bits, by rw [hb]; rfl, hl⟩
  · rw [h2 h]; rfl

/-- a walk with its matching check is accepted … -/
example : ∃ bits, Gen.decode 48 (cstr "TCTCTCT".toList) (.int 8) (accPV gcBalanced2) (.int 1) (.bool false)
    (.str "TAAGC".toList) PV.none (.bool false) = .ok (bitsPV bits) ∧ bits.length = 8 :=
  (gen_C06_normal gcBalanced2 none 1 _ 8 (some "TAAGC".toList) 48 false gc_wf gc_lt (tblOK_none _)
    (by decide) (by decide)).1 ⟨by decide +kernel, by unfold CheckOk; decide +kernel⟩
/-- … a string that leaves the graph is a `ValueError` … -/
example : Gen.decode 38 (cstr "TCTCTAT".toList) (.int 8) (accPV gcBalanced2) (.int 1) (.bool false) PV.none
    PV.none (.bool false) = .error .valueError :=
  (gen_C06_normal gcBalanced2 none 1 _ 8 none 38 false gc_wf gc_lt (tblOK_none _) (by decide)
    (by decide)).2 (fun h => absurd h.1 (by decide +kernel))
/-- … and so is a walk with a check that does not match. -/
example : Gen.decode 48 (cstr "TCTCTCT".toList) (.int 8) (accPV gcBalanced2) (.int 1) (.bool false)
    (.str "GAAGC".toList) PV.none (.bool false) = .error .valueError :=
  (gen_C06_normal gcBalanced2 none 1 _ 8 (some "GAAGC".toList) 48 false gc_wf gc_lt (tblOK_none _)
    (by decide) (by decide)).2 (fun h => absurd h.2 (by unfold CheckOk; decide +kernel))

/-- the same as an equivalence: the generated `decode` returns iff the string is a walk and the
check matches. -/
theorem gen_C06_normal_iff (a : Acc) (tbl : Option Tbl) (v : Nat) (s : List Char) (L : Nat)
    (chk : Option (List Char)) (fuel : Nat) (vb : Bool)
    (ha : a.WF) (hv : v < a.size) (ht : TblOK tbl a) (hc : ∀ c, chk = some c → c ≠ [])
    (hf : 4 * s.length + 2 * (chk.map List.length).getD 0 + 10 ≤ fuel) :
    (∃ x, Gen.decode fuel (cstr s) (.int (L : Int)) (accPV a) (.int (v : Int)) (.bool false)
      (chkPV chk) (tblPV tbl) (.bool vb) = .ok x) ↔ (isWalk a (v : Int) s = true ∧ CheckOk s chk) := by
  obtain ⟨h1, h2⟩ := gen_C06_normal a tbl v s L chk fuel vb ha hv ht hc hf
  constructor
  · intro ⟨x, hx⟩
    apply Classical.byContradiction
    intro hn
    rw [h2 hn] at hx
    cases hx
  · intro h
    obtain ⟨bits, hb, _⟩ := h1 h
    exact ⟨_, hb⟩

example : (∃ x, Gen.decode 48 (cstr "TCTCTCT".toList) (.int 8) (accPV gcBalanced2) (.int 1) (.bool false)
      (.str "TAAGC".toList) PV.none (.bool false) = .ok x) ↔
    (isWalk gcBalanced2 1 "TCTCTCT".toList = true ∧ CheckOk "TCTCTCT".toList (some "TAAGC".toList)) :=
  gen_C06_normal_iff gcBalanced2 none 1 _ 8 (some "TAAGC".toList) 48 false gc_wf gc_lt (tblOK_none _)
    (by decide) (by decide)

/-- fast mode (no out-degree-3 vertex reachable): the same dichotomy for every string whose walkable
prefix carries no more bits than requested — `C06_fast` about the generated code. -/
theorem gen_C06_fast (a : Acc) (tbl : Option Tbl) (v : Nat) (s : List Char) (L : Nat)
    (chk : Option (List Char)) (fuel : Nat) (vb : Bool)
    (ha : a.WF) (hv : v < a.size) (ht : TblOK tbl a) (hc : ∀ c, chk = some c → c ≠ [])
    (h3 : a.NoDeg3From (v : Int))
    (hL : (walkBits a tbl (v : Int) (walkablePrefix a (v : Int) s)).length ≤ L)
    (hf : 4 * s.length + 2 * (chk.map List.length).getD 0 + 10 ≤ fuel) :
    (isWalk a (v : Int) s = true ∧ CheckOk s chk →
        ∃ bits, Gen.decode fuel (cstr s) (.int (L : Int)) (accPV a) (.int (v : Int)) (.bool true)
          (chkPV chk) (tblPV tbl) (.bool vb) = .ok (bitsPV bits) ∧ bits.length = L) ∧
    (¬ (isWalk a (v : Int) s = true ∧ CheckOk s chk) →
        Gen.decode fuel (cstr s) (.int (L : Int)) (accPV a) (.int (v : Int)) (.bool true)
          (chkPV chk) (tblPV tbl) (.bool vb) = .error .valueError) := by
  rw [tie_decode a tbl v s L true chk fuel vb ha hv ht hc hf]
  obtain ⟨h1, h2⟩ := C06_fast a tbl v s L chk h3 hL
  refine ⟨fun h => ?_, fun h => ?_⟩
  · obtain ⟨bits, hb, hl⟩ := h1 h
    exact ⟨bits, by rw [hb]; rfl, hl⟩
  · rw [h2 h]; rfl

example : ∃ bits, Gen.decode 52 (cstr "AGAGAGAG".toList) (.int 8) (accPV gcBalanced2) (.int 1) (.bool true)
    (.str "AAATA".toList) PV.none (.bool false) = .ok (bitsPV bits) ∧ bits.length = 8 :=
  (gen_C06_fast gcBalanced2 none 1 _ 8 (some "AAATA".toList) 52 false gc_wf gc_lt (tblOK_none _)
    (by decide) gc_noDeg3 (by decide +kernel) (by decide)).1
    ⟨by decide +kernel, by unfold CheckOk; decide +kernel⟩
/-- the walkable prefix `AGAGA` of `AGAGATAG` carries five bits. -/
example : Gen.decode 42 (cstr "AGAGATAG".toList) (.int 8) (accPV gcBalanced2) (.int 1) (.bool true) PV.none
    PV.none (.bool false) = .error .valueError :=
  (gen_C06_fast gcBalanced2 none 1 _ 8 none 42 false gc_wf gc_lt (tblOK_none _)
    (by decide) gc_noDeg3 (by decide +kernel) (by decide)).2 (fun h => absurd h.1 (by decide +kernel))

theorem gen_C06_fast_iff (a : Acc) (tbl : Option Tbl) (v : Nat) (s : List Char) (L : Nat)
    (chk : Option (List Char)) (fuel : Nat) (vb : Bool)
    (ha : a.WF) (hv : v < a.size) (ht : TblOK tbl a) (hc : ∀ c, chk = some c → c ≠ [])
    (h3 : a.NoDeg3From (v : Int))
    (hL : (walkBits a tbl (v : Int) (walkablePrefix a (v : Int) s)).length ≤ L)
    (hf : 4 * s.length + 2 * (chk.map List.length).getD 0 + 10 ≤ fuel) :
    (∃ x, Gen.decode fuel (cstr s) (.int (L : Int)) (accPV a) (.int (v : Int)) (.bool true)
      (chkPV chk) (tblPV tbl) (.bool vb) = .ok x) ↔ (isWalk a (v : Int) s = true ∧ CheckOk s chk) := by
  obtain ⟨h1, h2⟩ := gen_C06_fast a tbl v s L chk fuel vb ha hv ht hc h3 hL hf
  constructor
  · intro ⟨x, hx⟩
    apply Classical.byContradiction
    intro hn
    rw [h2 hn] at hx
    cases hx
  · intro h
    obtain ⟨bits, hb, _⟩ := h1 h
    exact ⟨_, hb⟩

example : (∃ x, Gen.decode 42 (cstr "AGAGAGAG".toList) (.int 8) (accPV gcBalanced2) (.int 1) (.bool true)
      PV.none PV.none (.bool false) = .ok x) ↔
    (isWalk gcBalanced2 1 "AGAGAGAG".toList = true ∧ CheckOk "AGAGAGAG".toList none) :=
  gen_C06_fast_iff gcBalanced2 none 1 _ 8 none 42 false gc_wf gc_lt (tblOK_none _)
    (by decide) gc_noDeg3 (by decide +kernel) (by decide)

/-- which strands the generated `decode` accepts does not depend on the shuffle table —
`C06_table_independent` about the generated code. -/
theorem gen_C06_table_independent (a : Acc) (tbl tbl' : Option Tbl) (v : Nat) (s : List Char) (L : Nat)
    (chk : Option (List Char)) (fuel : Nat) (vb : Bool)
    (ha : a.WF) (hv : v < a.size) (ht : TblOK tbl a) (ht' : TblOK tbl' a)
    (hc : ∀ c, chk = some c → c ≠ [])
    (hf : 4 * s.length + 2 * (chk.map List.length).getD 0 + 10 ≤ fuel) :
    (Gen.decode fuel (cstr s) (.int (L : Int)) (accPV a) (.int (v : Int)) (.bool false)
      (chkPV chk) (tblPV tbl) (.bool vb)).toBool =
    (Gen.decode fuel (cstr s) (.int (L : Int)) (accPV a) (.int (v : Int)) (.bool false)
      (chkPV chk) (tblPV tbl') (.bool vb)).toBool := by
  rw [tie_decode a tbl v s L false chk fuel vb ha hv ht hc hf,
    tie_decode a tbl' v s L false chk fuel vb ha hv ht' hc hf, toBool_map, toBool_map]
  exact C06_table_independent a tbl tbl' v s L chk

example : (Gen.decode 48 (cstr "TCTCTCT".toList) (.int 8) (accPV gcBalanced2) (.int 1) (.bool false)
      (.str "TAAGC".toList) PV.none (.bool false)).toBool =
    (Gen.decode 48 (cstr "TCTCTCT".toList) (.int 8) (accPV gcBalanced2) (.int 1) (.bool false)
      (.str "TAAGC".toList) (accPV gcTable) (.bool false)).toBool :=
  gen_C06_table_independent gcBalanced2 none (some gcTable) 1 _ 8 (some "TAAGC".toList) 48 false gc_wf gc_lt
    (tblOK_none _) gcTable_ok (by decide) (by decide)

/-! ## C07 — the path check is the documented VT function and sees every substitution -/

/-- length, flag symbol and digit symbols of what the generated `set_vt` returns (defined for the
empty strand too) — `C07_shape` about the generated code. -/
theorem gen_C07_shape (s : List Char) (n fuel : Nat) (hn : 1 ≤ n) (hs : IsAcgt s) (hf : 2 * n + 2 ≤ fuel) :
    ∃ c, Gen.set_vt fuel (cstr s) (.int (n : Int)) = .ok (cstr c) ∧ c.length = n ∧ IsAcgt c ∧
      c.head? = some (nucChar ((valuesOf s).sum % 4)) ∧
      kmerIdx c.tail = (ascentPositions (valuesOf s)).sum % 4 ^ (n - 1) := by
  obtain ⟨c, h, hr⟩ := C07_shape s n hn hs
  exact ⟨c, by rw [tie_set_vt s n fuel hn hf, h]; rfl, hr⟩

example : ∃ c, Gen.set_vt 12 (cstr "TCTCTCT".toList) (.int 5) = .ok (cstr c) ∧ c.length = 5 ∧ IsAcgt c ∧
    c.head? = some (nucChar ((valuesOf "TCTCTCT".toList).sum % 4)) ∧
    kmerIdx c.tail = (ascentPositions (valuesOf "TCTCTCT".toList)).sum % 4 ^ (5 - 1) :=
  gen_C07_shape _ 5 12 (by decide) (by unfold IsAcgt; decide) (by decide)
/-- the empty strand has the check `AAA`. -/
example : ∃ c, Gen.set_vt 8 (cstr []) (.int 3) = .ok (cstr c) ∧ c.length = 3 ∧ IsAcgt c ∧
    c.head? = some (nucChar ((valuesOf []).sum % 4)) ∧
    kmerIdx c.tail = (ascentPositions (valuesOf [])).sum % 4 ^ (3 - 1) :=
  gen_C07_shape [] 3 8 (by decide) isAcgt_nil (by decide)

/-- a strand with a foreign character has no check: the generated `set_vt` raises `ValueError` —
`C07_foreign` about the generated code (for `n ≥ 1`, the tie's contract). -/
theorem gen_C07_foreign (s : List Char) (n fuel : Nat) (hn : 1 ≤ n) (hs : ¬ IsAcgt s) (hf : 2 * n + 2 ≤ fuel) :
    Gen.set_vt fuel (cstr s) (.int (n : Int)) = .error .valueError := by
  rw [tie_set_vt s n fuel hn hf, C07_foreign s n hs]; rfl

example : Gen.set_vt 12 (cstr "TCNCT".toList) (.int 5) = .error .valueError :=
  gen_C07_foreign _ 5 12 (by decide) (by unfold IsAcgt; decide) (by decide)

/-- any single substitution changes the first symbol of the check the generated `set_vt` returns. -/
theorem gen_C07_subst (s : List Char) (n p : Nat) (x : Char) (fuel : Nat) (hn : 1 ≤ n) (hs : IsAcgt s)
    (hp : p < s.length) (hx : (nucIdx x).isSome = true) (hne : s[p]? ≠ some x) (hf : 2 * n + 2 ≤ fuel) :
    ∃ c c', Gen.set_vt fuel (cstr s) (.int (n : Int)) = .ok (cstr c) ∧
      Gen.set_vt fuel (cstr (s.set p x)) (.int (n : Int)) = .ok (cstr c') ∧ c.head? ≠ c'.head? := by
  obtain ⟨c, c', h, h', hr⟩ := C07_subst s n p x hn hs hp hx hne
  exact ⟨c, c', by rw [tie_set_vt s n fuel hn hf, h]; rfl, by rw [tie_set_vt _ n fuel hn hf, h']; rfl, hr⟩

/-- `TCTCTCT` → `TCTCTAT`. -/
example : ∃ c c', Gen.set_vt 12 (cstr "TCTCTCT".toList) (.int 5) = .ok (cstr c) ∧
    Gen.set_vt 12 (cstr ("TCTCTCT".toList.set 5 'A')) (.int 5) = .ok (cstr c') ∧ c.head? ≠ c'.head? :=
  gen_C07_subst _ 5 5 'A' 12 (by decide) (by unfold IsAcgt; decide) (by decide) (by decide) (by decide)
    (by decide)

/-- any single insertion of C, G or T changes the first symbol of the check. -/
theorem gen_C07_insert (s : List Char) (n p : Nat) (x : Char) (fuel : Nat) (hn : 1 ≤ n) (hs : IsAcgt s)
    (hp : p ≤ s.length) (hx : x = 'C' ∨ x = 'G' ∨ x = 'T') (hf : 2 * n + 2 ≤ fuel) :
    ∃ c c', Gen.set_vt fuel (cstr s) (.int (n : Int)) = .ok (cstr c) ∧
      Gen.set_vt fuel (cstr (s.take p ++ [x] ++ s.drop p)) (.int (n : Int)) = .ok (cstr c') ∧
      c.head? ≠ c'.head? := by
  obtain ⟨c, c', h, h', hr⟩ := C07_insert s n p x hn hs hp hx
  exact ⟨c, c', by rw [tie_set_vt s n fuel hn hf, h]; rfl, by rw [tie_set_vt _ n fuel hn hf, h']; rfl, hr⟩

example : ∃ c c', Gen.set_vt 12 (cstr "TCTCTCT".toList) (.int 5) = .ok (cstr c) ∧
    Gen.set_vt 12 (cstr ("TCTCTCT".toList.take 3 ++ ['G'] ++ "TCTCTCT".toList.drop 3)) (.int 5) = .ok (cstr c') ∧
    c.head? ≠ c'.head? :=
  gen_C07_insert _ 5 3 'G' 12 (by decide) (by unfold IsAcgt; decide) (by decide) (by decide) (by decide)

/-- any single deletion of C, G or T changes the first symbol of the check. -/
theorem gen_C07_delete (s : List Char) (n p : Nat) (fuel : Nat) (hn : 1 ≤ n) (hs : IsAcgt s)
    (hp : p < s.length) (hx : s[p]? = some 'C' ∨ s[p]? = some 'G' ∨ s[p]? = some 'T')
    (hf : 2 * n + 2 ≤ fuel) :
    ∃ c c', Gen.set_vt fuel (cstr s) (.int (n : Int)) = .ok (cstr c) ∧
      Gen.set_vt fuel (cstr (s.eraseIdx p)) (.int (n : Int)) = .ok (cstr c') ∧ c.head? ≠ c'.head? := by
  obtain ⟨c, c', h, h', hr⟩ := C07_delete s n p hn hs hp hx
  exact ⟨c, c', by rw [tie_set_vt s n fuel hn hf, h]; rfl, by rw [tie_set_vt _ n fuel hn hf, h']; rfl, hr⟩

example : ∃ c c', Gen.set_vt 12 (cstr "TCTCTCT".toList) (.int 5) = .ok (cstr c) ∧
    Gen.set_vt 12 (cstr ("TCTCTCT".toList.eraseIdx 2)) (.int 5) = .ok (cstr c') ∧ c.head? ≠ c'.head? :=
  gen_C07_delete _ 5 2 12 (by decide) (by unfold IsAcgt; decide) (by decide) (by decide) (by decide)

/-- consequently the generated `decode` of any strand whose check (as the generated `set_vt` computes
it) differs in the first symbol from the supplied one raises `ValueError`, whatever the graph,
table, mode and requested length — `C07_decode_rejects` about the generated code. -/
theorem gen_C07_decode_rejects (a : Acc) (tbl : Option Tbl) (v : Nat) (s s' : List Char) (L n : Nat)
    (fast : Bool) (c c' : List Char) (fv fuel : Nat) (vb : Bool)
    (ha : a.WF) (hv : v < a.size) (ht : TblOK tbl a) (hn : 1 ≤ n) (hfv : 2 * n + 2 ≤ fv)
    (hc : Gen.set_vt fv (cstr s) (.int (n : Int)) = .ok (cstr c))
    (hc' : Gen.set_vt fv (cstr s') (.int (n : Int)) = .ok (cstr c')) (hne : c.head? ≠ c'.head?)
    (hf : 4 * s'.length + 2 * n + 10 ≤ fuel) :
    Gen.decode fuel (cstr s') (.int (L : Int)) (accPV a) (.int (v : Int)) (.bool fast) (.str c) (tblPV tbl)
      (.bool vb) = .error .valueError := by
  have hm := setVt_of_gen hn hfv hc
  have hm' := setVt_of_gen hn hfv hc'
  have hl := setVt_length hn hm
  have hcne : c ≠ [] := by
    intro h
    rw [h] at hl
    simp at hl
    omega
  exact (tie_decode a tbl v s' L fast (some c) fuel vb ha hv ht
    (fun c0 h0 => by cases h0; exact hcne)
    (by simp only [Option.map_some, Option.getD_some, hl]; exact hf)).trans
    (by rw [C07_decode_rejects a tbl v s s' L n fast c c' hm hm' hn hne]; rfl)

/-- the neighbour `TCTCTAT` of `TCTCTCT` (check `GAAGC` instead of `TAAGC`) is rejected in both modes. -/
example (fast : Bool) : Gen.decode 48 (cstr "TCTCTAT".toList) (.int 8) (accPV gcBalanced2) (.int 1) (.bool fast)
    (.str "TAAGC".toList) PV.none (.bool false) = .error .valueError :=
  gen_C07_decode_rejects gcBalanced2 none 1 "TCTCTCT".toList _ 8 5 fast _ "GAAGC".toList 12 48 false gc_wf gc_lt
    (tblOK_none _) (by decide) (by decide) gc_set_vt gc_set_vt' (by decide) (by decide)

/-- C01 and C07 together, entirely about the generated code: if the generated `encode` returns the
strand `s` with the check `c` (`vt_length = n > 0`), then the generated `decode` rejects every
single-nucleotide substitution of `s` presented with `c` — in either mode, whatever `bit_length`. -/
theorem gen_C07_encode_subst_rejected (a : Acc) (tbl : Option Tbl) (v : Nat) (m : List Nat)
    (fast fast' : Bool) (n fuel fuel' L p : Nat) (x : Char) (vb vb' : Bool) (s c : List Char)
    (ha : a.WF) (hv : v < a.size) (ht : TblOK tbl a) (hm : IsBits m) (hn : 0 < n) (hf : 2 * n + 3 ≤ fuel)
    (h : Gen.encode fuel (bitsPV m) (accPV a) (.int (v : Int)) (.bool fast) (.int (n : Int)) (tblPV tbl)
      (.bool false) (.bool vb) = .ok (.tup [.str s, .str c]))
    (hp : p < s.length) (hx : (nucIdx x).isSome = true) (hne : s[p]? ≠ some x)
    (hf' : 4 * s.length + 2 * n + 10 ≤ fuel') :
    Gen.decode fuel' (cstr (s.set p x)) (.int (L : Int)) (accPV a) (.int (v : Int)) (.bool fast') (.str c)
      (tblPV tbl) (.bool vb') = .error .valueError := by
  rw [tie_encode a tbl v m fast n fuel vb ha hv ht (isBits_le_one hm) hf] at h
  obtain ⟨⟨s0, c0⟩, he, hr⟩ := map_ok_inv h
  rcases encode_ok_check he with ⟨h0, _⟩ | ⟨_, c1, rfl, hsv⟩
  · omega
  · simp only [encResultPV, PV.tup.injEq, List.cons.injEq, PV.str.injEq, and_true] at hr
    obtain ⟨rfl, rfl⟩ := hr
    have hs := isAcgt_of_setVt hsv
    obtain ⟨d, d', hd, hd', hdd⟩ := C07_subst s n p x hn hs hp hx hne
    rw [hsv] at hd
    cases hd
    have hl := setVt_length hn hsv
    have hcne : c ≠ [] := by
      intro h
      rw [h] at hl
      simp at hl
      omega
    exact (tie_decode a tbl v (s.set p x) L fast' (some c) fuel' vb' ha hv ht
      (fun c0 h0 => by cases h0; exact hcne)
      (by simp only [Option.map_some, Option.getD_some, hl, List.length_set]; exact hf')).trans
      (by rw [C07_decode_rejects a tbl v s (s.set p x) L n fast' c d' hsv hd' hn hdd]; rfl)

example (fast' : Bool) (L : Nat) :
    Gen.decode 48 (cstr ("TCTCTCT".toList.set 5 'A')) (.int (L : Int)) (accPV gcBalanced2) (.int 1) (.bool fast')
      (.str "TAAGC".toList) PV.none (.bool true) = .error .valueError :=
  gen_C07_encode_subst_rejected gcBalanced2 none 1 _ false fast' 5 200 48 L 5 'A' false true _ _ gc_wf gc_lt
    (tblOK_none _) msg_bits (by decide) (by decide) gc_encode_normal (by decide) (by decide) (by decide)
    (by decide)

end Dsw.Tie
