import DswModel.Tie.PyLemmas
/-!
# Translation tie — `calculus_division`

`Dsw.Gen.calculus_division` (generated from the Python source on every run) computes the model
function `Dsw.calculusDivision` for every string of decimal digits and every one-digit operand
(including the documented special cases 0 and 1); it contains no `while` loop, so any fuel will do.

Proof plan: the long-division loop (`for1`) is tied to `List.foldl (divStep b)` with the abstract
state rule `forLoop_rel_enum` (relation `DivRel`); the zero-stripping search loop (`for2`) is tied to
`stripZeros` with the early-return rule `forLoop_inv_ret`; the straight-line code is evaluated by
`simp only` with the computation lemmas of `PyLemmas`.  The generated code names the statements
after every compound statement (`k1` … `k5`); there is one `k<N>_spec` lemma per continuation,
proved last to first, each ending in the `_spec` of the next one.
-/
namespace Dsw.Tie
open Dsw Dsw.Py

namespace DivTie

/-! ### model side: `stripZeros` -/

theorem stripZeros_replicate_append (k : Nat) (l : Dec) : stripZeros (List.replicate k 0 ++ l) = stripZeros l := by
  induction k with
  | zero => rfl
  | succ k ih => rw [List.replicate_succ, List.cons_append, stripZeros, ih]

theorem stripZeros_cons_of_ne {d : Nat} (h : d ≠ 0) (r : Dec) : stripZeros (d :: r) = d :: r := by
  cases d with
  | zero => exact absurd rfl h
  | succ n => rfl

/-- the first `i` digits are zero and digit `i` is not: `quotient[i:]`. -/
theorem stripZeros_eq_drop {q : Dec} {i : Nat} (hi : i < q.length) (hz : q.take i = List.replicate i 0)
    (hne : q[i] ≠ 0) : stripZeros q = q.drop i := by
  have h1 : q = List.replicate i 0 ++ q.drop i := by rw [← hz, List.take_append_drop]
  rw [h1, stripZeros_replicate_append, ← h1, List.drop_eq_getElem_cons hi, stripZeros_cons_of_ne hne]

/-- all digits are zero. -/
theorem stripZeros_of_all_zero {q : Dec} (hz : q.take q.length = List.replicate q.length 0) :
    stripZeros q = [0] := by
  rw [List.take_length] at hz
  have := stripZeros_replicate_append q.length []
  rw [List.append_nil, ← hz] at this
  rw [this]; rfl

/-! ### loop 1: long division -/

/-- relation between the model state `(quotient digits reversed, remainder)` and the environment. -/
def DivRel (b : Nat) (st : List Nat × Nat) (e : Gen.calculus_division.Env) : Prop :=
  e.base = dstr [b] ∧ e.new_number = natsPV st.1.reverse ∧ e.remainder = .int (st.2 : Int) ∧
    st.2 < b ∧ Digits st.1

theorem for1_body_spec (fuel b : Nat) (hb2 : 2 ≤ b) (hb : b < 10) (i x : Nat) (hx : x < 10)
    (st : List Nat × Nat) (e : Gen.calculus_division.Env) (hr : DivRel b st e) :
    ∃ e', Gen.calculus_division.for1_body fuel (.tup [.int (i : Int), .int (x : Int)]) e = .ok (.norm e') ∧
      DivRel b (divStep b st x) e' := by
  obtain ⟨hbase, hnn, hrem, hlt, hdig⟩ := hr
  have hcur : ((x : Int) + (st.2 : Int) * 10) = ((x + st.2 * 10 : Nat) : Int) := by push_cast; rfl
  simp only [Gen.calculus_division.for1_body, pyUnpack_two_tup, bnd_ok, getD_cons_zero', getD_cons_one',
    hbase, hnn, hrem, dstr_singleton, pyInt_digit hb, pyMul_int, pyAdd_int, pyGe_int, hcur, Int.ofNat_le]
  by_cases hge : b ≤ x + st.2 * 10
  · have hsub : (((x + st.2 * 10 : Nat) : Int) - ((x + st.2 * 10) / b : Nat) * (b : Int)) =
        ((x + st.2 * 10 - (x + st.2 * 10) / b * b : Nat) : Int) := by
      have := Nat.div_mul_le_self (x + st.2 * 10) b
      rw [Int.ofNat_sub this]; push_cast; rfl
    simp only [hge, decide_true, if_true, pyFloorDiv_nat (show b ≠ 0 by omega), pyAppend_natsPV, bnd_ok,
      pyIndex_natsPV_append_neg_one, pyMul_int, pySub_int, hsub]
    refine ⟨_, rfl, ?_⟩
    have hmod : x + st.2 * 10 - (x + st.2 * 10) / b * b < b := by
      have := Nat.mod_lt (x + st.2 * 10) (show b > 0 by omega)
      have h2 := Nat.div_add_mod (x + st.2 * 10) b
      rw [Nat.mul_comm] at h2; omega
    have hq : (x + st.2 * 10) / b < 10 := by
      rw [Nat.div_lt_iff_lt_mul (by omega)]
      have : st.2 * 10 + 10 ≤ b * 10 := by omega
      omega
    simp only [DivRel, divStep, ge_iff_le, hge, if_true, List.reverse_cons, Digits_cons]
    refine ⟨?_, ?_, ?_, hmod, hq, hdig⟩ <;> first | trivial | rfl
  · simp only [hge, decide_false, if_false, Bool.false_eq_true]
    have h0 : (PV.int 0) = .int ((0 : Nat) : Int) := rfl
    rw [h0, pyAppend_natsPV]
    simp only [bnd_ok]
    refine ⟨_, rfl, ?_⟩
    simp only [DivRel, divStep, ge_iff_le, hge, if_false, List.reverse_cons, Digits_cons]
    refine ⟨?_, ?_, ?_, by omega, by omega, hdig⟩ <;> first | trivial | rfl

theorem for1_loop (fuel b : Nat) (hb2 : 2 ≤ b) (hb : b < 10) (s : Dec) (hs : Digits s)
    (st : List Nat × Nat) (e : Gen.calculus_division.Env) (h0 : DivRel b st e) :
    ∃ e', forLoop (Gen.calculus_division.for1_body fuel)
        (enumFrom 0 (s.map fun (n : Nat) => PV.int (n : Int))) e = .ok (.norm e') ∧
      DivRel b (s.foldl (divStep b) st) e' :=
  forLoop_rel_enum (DivRel b) (divStep b) (fun (n : Nat) => PV.int (n : Int)) 0
    (fun i a ha st e hr => for1_body_spec fuel b hb2 hb i a (hs a ha) st e hr) h0

/-! ### loop 2: strip the leading zeros of the quotient -/

/-- invariant before looking at `quotient[i]`. -/
def StripInv (q : Dec) (r : Nat) (i : Nat) (e : Gen.calculus_division.Env) : Prop :=
  e.quotient = dstr q ∧ e.remainder = .int (r : Int) ∧ q.take i = List.replicate i 0

theorem for2_body_spec (fuel : Nat) (q : Dec) (hq : Digits q) (r : Nat) (hr : r < 10) (i : Nat)
    (hi : i < q.length) (e : Gen.calculus_division.Env) (h : StripInv q r i e) :
    (∃ e', Gen.calculus_division.for2_body fuel (.int (i : Int)) e = .ok (.norm e') ∧ StripInv q r (i + 1) e') ∨
      (∃ v, Gen.calculus_division.for2_body fuel (.int (i : Int)) e = .ok (.ret v) ∧
        v = .tup [dstr (stripZeros q), dstr [r]]) := by
  obtain ⟨hquo, hrem, hz⟩ := h
  simp only [Gen.calculus_division.for2_body, hquo, hrem, pyIndex_dstr hi, bnd_ok, pyNe_def,
    eqb_digit_lit_zero (hq.getElem i hi)]
  by_cases hd : q[i] = 0
  · left
    simp only [hd, decide_true, Bool.not_true, Bool.false_eq_true, if_false]
    refine ⟨_, rfl, rfl, rfl, ?_⟩
    rw [← List.take_append_getElem hi, hz, hd, List.replicate_succ']
  · right
    simp only [hd, decide_false, Bool.not_false, if_true, pySliceV_dstr_from, pyStr_digit hr, bnd_ok]
    refine ⟨_, rfl, ?_⟩
    rw [stripZeros_eq_drop hi hz hd]; rfl

theorem for2_loop (fuel : Nat) (q : Dec) (hq : Digits q) (r : Nat) (hr : r < 10)
    (e : Gen.calculus_division.Env) (hquo : e.quotient = dstr q) (hrem : e.remainder = .int (r : Int)) :
    (∃ e', forLoop (Gen.calculus_division.for2_body fuel)
        ((List.range q.length).map fun (i : Nat) => PV.int (i : Int)) e = .ok (.norm e') ∧
        (e'.remainder = .int (r : Int) ∧ stripZeros q = [0])) ∨
      (∃ v, forLoop (Gen.calculus_division.for2_body fuel)
        ((List.range q.length).map fun (i : Nat) => PV.int (i : Int)) e = .ok (.ret v) ∧
        v = .tup [dstr (stripZeros q), dstr [r]]) := by
  have key := forLoop_inv_ret (body := Gen.calculus_division.for2_body fuel) (StripInv q r)
    (fun v => v = .tup [dstr (stripZeros q), dstr [r]])
    (xs := (List.range q.length).map fun (i : Nat) => PV.int (i : Int))
    (fun i hi e he => by
      have hi' : i < q.length := by simpa using hi
      have : ((List.range q.length).map fun (i : Nat) => PV.int (i : Int))[i] = PV.int (i : Int) := by simp
      rw [this]
      exact for2_body_spec fuel q hq r hr i hi' e he)
    (e := e) ⟨hquo, hrem, rfl⟩
  rcases key with ⟨e', hl, hinv⟩ | hret
  · left
    refine ⟨e', hl, hinv.2.1, ?_⟩
    have := hinv.2.2
    simp only [List.length_map, List.length_range] at this
    exact stripZeros_of_all_zero this
  · right; exact hret

/-! ### the continuations, last to first -/

/-- the result pair for a model state. -/
def resPV (q r : Dec) : PV := .tup [dstr q, dstr r]

/-- `k1`: after the search loop fell through — `return "0", str(remainder)`. -/
theorem k1_spec (fuel : Nat) (e : Gen.calculus_division.Env) (r : Nat) (hr : r < 10)
    (hrem : e.remainder = .int (r : Int)) :
    Gen.calculus_division.k1 fuel e = .ok (.ret (resPV [0] [r])) := by
  simp only [Gen.calculus_division.k1, hrem, pyStr_digit hr, bnd_ok, str_lit_zero]; rfl

/-- `k2`: after the division loop — join the quotient digits, strip the zeros. -/
theorem k2_spec (fuel b : Nat) (hb : b < 10) (st : List Nat × Nat) (e : Gen.calculus_division.Env)
    (h : DivRel b st e) :
    Gen.calculus_division.k2 fuel e = .ok (.ret (resPV (stripZeros st.1.reverse) [st.2])) := by
  obtain ⟨_, hnn, hrem, hlt, hdig⟩ := h
  have hr : st.2 < 10 := by omega
  simp only [Gen.calculus_division.k2, hnn, join_map_str_natsPV hdig.reverse, bnd_ok, pyLen_dstr,
    pyRange1_nat, pyIter_list]
  apply seq_eq_of_norm_or_ret _ _ (for2_loop fuel _ hdig.reverse st.2 hr _ (by rfl) (by exact hrem))
  · intro e2 ⟨hrem2, hz⟩
    rw [k1_spec fuel e2 st.2 hr hrem2, hz]
  · intro v hv
    rw [hv]; rfl

/-- `k3`: the general path — digits to ints, then the division loop. -/
theorem k3_spec (fuel b : Nat) (hb2 : 2 ≤ b) (hb : b < 10) (s : Dec) (hs : Digits s)
    (e : Gen.calculus_division.Env) (hnum : e.number = dstr s) (hbase : e.base = dstr [b]) :
    Gen.calculus_division.k3 fuel e =
      .ok (.ret (resPV (stripZeros (s.foldl (divStep b) ([], 0)).1.reverse) [(s.foldl (divStep b) ([], 0)).2])) := by
  simp only [Gen.calculus_division.k3, hnum, pyMap_pyInt_dstr hs, bnd_ok, pyEnumerate_natsPV, pyIter_list]
  apply seq_eq_of_norm (DivRel b (s.foldl (divStep b) ([], 0)))
  · exact for1_loop fuel b hb2 hb s hs ([], 0) _ ⟨hbase, rfl, rfl, by omega, Digits_nil⟩
  · intro e1 h1
    exact k2_spec fuel b hb _ e1 h1

/-- the guard `len(number) == 1 and number[0] < base`. -/
theorem guard_eq (s : Dec) (hs : Digits s) (b : Nat) (hb : b < 10) :
    (bnd (bnd (pyLen (dstr s)) fun t => pyEq t (.int 1)) fun c =>
        if c then (bnd (pyIndex (dstr s) (.int 0)) fun t => pyLt t (dstr [b])) else .ok false) =
      .ok (decide (s.length = 1 ∧ s.headD 0 < b)) := by
  match s, hs with
  | [], _ => simp
  | [d], hs =>
    have hd : d < 10 := by simpa using hs
    simp [dstr_singleton, pyLt_digit hd hb]
  | d1 :: d2 :: r, _ =>
    simp only [pyLen_dstr, bnd_ok, pyEq_def, eqb_int, List.length_cons]
    have h1 : ((((r.length + 1 + 1 : Nat) : Int)) == 1) = false := by
      simp only [beq_eq_false_iff_ne, ne_eq]; omega
    have h2 : ¬ (r.length + 1 + 1 = 1 ∧ (List.headD (d1 :: d2 :: r) 0) < b) := by omega
    simp only [h1, Bool.false_eq_true, if_false, h2, decide_false]

/-- `k4`: the one-digit-below-the-base shortcut, then the general path (`base ≥ 2`). -/
theorem k4_spec (fuel b : Nat) (hb2 : 2 ≤ b) (hb : b < 10) (s : Dec) (hs : Digits s)
    (e : Gen.calculus_division.Env) (hnum : e.number = dstr s) (hbase : e.base = dstr [b]) :
    Gen.calculus_division.k4 fuel e = .ok (.ret (resPV (calculusDivision s b).1 (calculusDivision s b).2)) := by
  have h0 : ¬ b = 0 := by omega
  have h1 : ¬ b = 1 := by omega
  simp only [Gen.calculus_division.k4, hnum, hbase, guard_eq s hs b hb, bnd_ok]
  by_cases hg : s.length = 1 ∧ s.headD 0 < b
  · obtain ⟨d, rfl⟩ : ∃ d, s = [d] := by
      match s, hg.1 with
      | [d], _ => exact ⟨d, rfl⟩
    have hcd : calculusDivision [d] b = ([0], [d]) := by
      simp only [calculusDivision, h0, h1, if_false]
      rw [if_pos hg]; rfl
    simp only [hg, and_self, decide_true, if_true, pyIndex_dstr_cons_zero, bnd_ok, seq_ret, hcd, str_lit_zero]
    rfl
  · have hcd : calculusDivision s b =
        (stripZeros (s.foldl (divStep b) ([], 0)).1.reverse, [(s.foldl (divStep b) ([], 0)).2]) := by
      simp only [calculusDivision, h0, h1, if_false]
      rw [if_neg hg]
    simp only [hg, decide_false, Bool.false_eq_true, if_false, seq_norm, hcd]
    exact k3_spec fuel b hb2 hb s hs e hnum hbase

/-- `k5`: the `base == "1"` special case, then `k4`. -/
theorem k5_spec (fuel b : Nat) (hb0 : b ≠ 0) (hb : b < 10) (s : Dec) (hs : Digits s)
    (e : Gen.calculus_division.Env) (hnum : e.number = dstr s) (hbase : e.base = dstr [b]) :
    Gen.calculus_division.k5 fuel e = .ok (.ret (resPV (calculusDivision s b).1 (calculusDivision s b).2)) := by
  simp only [Gen.calculus_division.k5, hnum, hbase, dstr_singleton, pyEq_def, eqb_digit_lit_one hb, bnd_ok,
    seq_guard_ret]
  by_cases h1 : b = 1
  · subst h1
    simp only [decide_true, if_true, calculusDivision, str_lit_zero]
    rfl
  · simp only [h1, decide_false, Bool.false_eq_true, if_false]
    exact k4_spec fuel b (by omega) hb s hs e hnum (by rw [hbase])

/-- the function body: the `base == "0"` special case, then `k5`. -/
theorem body_spec (fuel b : Nat) (hb : b < 10) (s : Dec) (hs : Digits s)
    (e : Gen.calculus_division.Env) (hnum : e.number = dstr s) (hbase : e.base = dstr [b]) :
    Gen.calculus_division.body fuel e = .ok (.ret (resPV (calculusDivision s b).1 (calculusDivision s b).2)) := by
  simp only [Gen.calculus_division.body, hbase, dstr_singleton, pyEq_def, eqb_digit_lit_zero hb, bnd_ok,
    seq_guard_ret]
  by_cases h0 : b = 0
  · subst h0
    simp only [decide_true, if_true, calculusDivision, str_lit_zero]
    rfl
  · simp only [h0, decide_false, Bool.false_eq_true, if_false]
    exact k5_spec fuel b h0 hb s hs e hnum (by rw [hbase])

end DivTie

open DivTie in
theorem tie_calculus_division (s : Dec) (b fuel : Nat) (hs : Digits s) (hb : b < 10) :
    Gen.calculus_division fuel (dstr s) (dstr [b]) =
      .ok (.tup [dstr (calculusDivision s b).1, dstr (calculusDivision s b).2]) := by
  rw [Gen.calculus_division, body_spec fuel b hb s hs _ rfl rfl]; rfl

end Dsw.Tie
