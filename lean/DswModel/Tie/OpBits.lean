import DswModel.Tie.OpAdd
import DswModel.Tie.OpMul
import DswModel.Tie.OpDiv
import DswModel.Lemmas.Convert
/-!
# Translation tie — `bit_to_number`, `number_to_bit`

The generated definitions compute the model functions `bitToNumberStr`, `bitToNumberInt`,
`numberToBitStr`, `numberToBitInt`; the progress monitor (`verbose`) has no influence.

Proof plan: the model-side helper lemmas say that the decimal-string arithmetic keeps `Digits`
(they are read off the `*_foldr_spec` / `*_foldl_spec` lemmas of `Lemmas/Decimal.lean`).  The two
`for … in enumerate(bit_array)` loops are tied to the model `foldl`s with `forLoop_rel_enum`; the
`while decimal_number != "0"` loop follows the model loop `digitsStrLoop` iteration by iteration
(induction on the model fuel); the `while decimal_number > 0` loop follows `digitsNat` (induction on
a bound `n < 2 ^ k`); the final `if/elif/else` is `fitBits`.
-/
namespace Dsw.Tie
open Dsw Dsw.Py

namespace BitsTie

/-! ### model side: the arithmetic keeps `Digits` -/

theorem Digits_calculusAddition {s : Dec} {b : Nat} (hs : Digits s) (hb : b < 10) :
    Digits (calculusAddition s b) := by
  have hbd : ∀ d ∈ List.replicate (s.length - 1) 0 ++ [b], d < 10 := by
    intro d hd
    simp at hd
    rcases hd with ⟨_, rfl⟩ | rfl <;> omega
  have hp : ∀ p ∈ s.zip (List.replicate (s.length - 1) 0 ++ [b]), p.1 < 10 ∧ p.2 < 10 := by
    intro p hp
    obtain ⟨x, y⟩ := p
    have := List.of_mem_zip hp
    exact ⟨hs _ this.1, hbd _ this.2⟩
  obtain ⟨_, h2, h3, _⟩ := addStep_foldr_spec _ hp
  unfold calculusAddition
  simp only
  generalize (s.zip (List.replicate (s.length - 1) 0 ++ [b])).foldr addStep (0, []) = r at h2 h3
  obtain ⟨c, ds⟩ := r
  simp only at h2 h3
  split
  · exact h2
  · exact Digits_cons.mpr ⟨by omega, h2⟩

theorem Digits_calculusMultiplication {s : Dec} {b : Nat} (hs : Digits s) (hb : b < 10) :
    Digits (calculusMultiplication s b) := by
  unfold calculusMultiplication
  by_cases h0 : b = 0
  · rw [if_pos h0]; exact Digits_singleton.mpr (by omega)
  by_cases h1 : b = 1
  · rw [if_neg h0, if_pos h1]; exact hs
  rw [if_neg h0, if_neg h1]
  obtain ⟨_, g2, g3, _⟩ := mulStep_foldr_spec b (by omega) s hs
  simp only
  generalize s.foldr (mulStep b) (0, []) = r at g2 g3
  obtain ⟨c, ds⟩ := r
  simp only at g2 g3
  rw [pushCarry_two c ds (by omega)]
  split
  · exact Digits_cons.mpr ⟨by omega, g2⟩
  · exact g2

theorem Digits_stripZeros {s : Dec} (hs : Digits s) : Digits (stripZeros s) :=
  (canonical_stripZeros s hs).digits

/-- the quotient is a digit string, the remainder is one digit below the base. -/
theorem calculusDivision_digits {s : Dec} {b : Nat} (hs : Digits s) (hb2 : 2 ≤ b) (hb : b < 10) :
    Digits (calculusDivision s b).1 ∧ ∃ r, r < b ∧ (calculusDivision s b).2 = [r] := by
  unfold calculusDivision
  have h0 : ¬ b = 0 := by omega
  have h1 : ¬ b = 1 := by omega
  rw [if_neg h0, if_neg h1]
  split
  · rename_i hc
    exact ⟨Digits_singleton.mpr (by omega), _, hc.2, rfl⟩
  · have hd : ∀ d ∈ s.reverse, d < 10 := fun d hd => hs d (by simpa using hd)
    obtain ⟨_, g1, g2, _⟩ := divStep_foldl_spec b (by omega) s.reverse hd
    rw [List.reverse_reverse] at g1 g2
    exact ⟨Digits_stripZeros (Digits.reverse g1), _, g2, rfl⟩

/-! ### `bit_to_number`, string path -/

/-- relation between the model state (the decimal string so far) and the environment. -/
def StrRel (verbose : Bool) (st : Dec) (e : Gen.bit_to_number.Env) : Prop :=
  e.decimal_number = dstr st ∧ e.verbose = .bool verbose ∧ Digits st

theorem for1_body_spec (fuel : Nat) (hf : 3 ≤ fuel) (verbose : Bool) (i x : Nat) (hx : x ≤ 1) (st : Dec)
    (e : Gen.bit_to_number.Env) (hr : StrRel verbose st e) :
    ∃ e', Gen.bit_to_number.for1_body fuel (.tup [.int (i : Int), .int (x : Int)]) e = .ok (.norm e') ∧
      StrRel verbose (calculusAddition (calculusMultiplication st 2) x) e' := by
  obtain ⟨hdec, hverb, hdig⟩ := hr
  have hx10 : x < 10 := by omega
  have hm : Digits (calculusMultiplication st 2) := Digits_calculusMultiplication hdig (by omega)
  have hmul : Gen.calculus_multiplication fuel (dstr st) (.str ['2']) =
      .ok (dstr (calculusMultiplication st 2)) := by
    rw [str_lit_two]; exact tie_calculus_multiplication st 2 fuel hdig (by omega) (by omega)
  have hadd : Gen.calculus_addition fuel (dstr (calculusMultiplication st 2)) (.str [digitChar x]) =
      .ok (dstr (calculusAddition (calculusMultiplication st 2) x)) :=
    tie_calculus_addition _ x fuel hm hx10 hf
  simp only [Gen.bit_to_number.for1_body, pyUnpack_two_tup, bnd_ok, getD_cons_zero', getD_cons_one', hdec,
    hverb, hmul, pyStr_digit hx10, hadd, truthy_bool, ite_self]
  exact ⟨_, rfl, rfl, rfl, Digits_calculusAddition hm hx10⟩

theorem for1_loop (fuel : Nat) (hf : 3 ≤ fuel) (verbose : Bool) (bits : List Nat) (hb : ∀ x ∈ bits, x ≤ 1)
    (st : Dec) (e : Gen.bit_to_number.Env) (h0 : StrRel verbose st e) :
    ∃ e', forLoop (Gen.bit_to_number.for1_body fuel)
        (enumFrom 0 (bits.map fun (n : Nat) => PV.int (n : Int))) e = .ok (.norm e') ∧
      StrRel verbose (bits.foldl (fun n b => calculusAddition (calculusMultiplication n 2) b) st) e' :=
  forLoop_rel_enum (StrRel verbose) (fun n b => calculusAddition (calculusMultiplication n 2) b)
    (fun (n : Nat) => PV.int (n : Int)) 0
    (fun i a ha st e hr => for1_body_spec fuel hf verbose i a (hb a ha) st e hr) h0

/-! ### `bit_to_number`, int path -/

def IntRel (verbose : Bool) (st : Nat) (e : Gen.bit_to_number.Env) : Prop :=
  e.decimal_number = .int (st : Int) ∧ e.verbose = .bool verbose

theorem for2_body_spec (fuel : Nat) (verbose : Bool) (i x : Nat) (st : Nat)
    (e : Gen.bit_to_number.Env) (hr : IntRel verbose st e) :
    ∃ e', Gen.bit_to_number.for2_body fuel (.tup [.int (i : Int), .int (x : Int)]) e = .ok (.norm e') ∧
      IntRel verbose (st * 2 + x) e' := by
  obtain ⟨hdec, hverb⟩ := hr
  have hc : ((st : Int) * 2 + (x : Int)) = ((st * 2 + x : Nat) : Int) := by push_cast; rfl
  simp only [Gen.bit_to_number.for2_body, pyUnpack_two_tup, bnd_ok, getD_cons_zero', getD_cons_one', hdec,
    hverb, pyMul_int, pyInt_int, pyAdd_int, truthy_bool, ite_self, hc]
  exact ⟨_, rfl, rfl, rfl⟩

theorem for2_loop (fuel : Nat) (verbose : Bool) (bits : List Nat)
    (st : Nat) (e : Gen.bit_to_number.Env) (h0 : IntRel verbose st e) :
    ∃ e', forLoop (Gen.bit_to_number.for2_body fuel)
        (enumFrom 0 (bits.map fun (n : Nat) => PV.int (n : Int))) e = .ok (.norm e') ∧
      IntRel verbose (bits.foldl (fun n b => n * 2 + b) st) e' :=
  forLoop_rel_enum (IntRel verbose) (fun n b => n * 2 + b)
    (fun (n : Nat) => PV.int (n : Int)) 0
    (fun i a _ st e hr => for2_body_spec fuel verbose i a st e hr) h0

/-! ### `number_to_bit` -/

/-- `k1`: the fixed-width step. -/
theorem k1_spec (fuel : Nat) (e : Gen.number_to_bit.Env) (one : List Nat) (L : Nat)
    (ho : e.one_array = natsPV one) (hL : e.bit_length = .int (L : Int)) :
    Gen.number_to_bit.k1 fuel e = .ok (.ret (natsPV (fitBits one L))) := by
  simp only [Gen.number_to_bit.k1, ho, hL, pyLen_natsPV, bnd_ok, pyEq_def, eqb_int, pyLt_int]
  unfold fitBits
  by_cases h1 : one.length = L
  · simp only [h1, BEq.rfl, if_true]
  · have hne : (((one.length : Nat) : Int) == (L : Int)) = false := by
      simp only [beq_eq_false_iff_ne, ne_eq]; omega
    simp only [hne, Bool.false_eq_true, if_false, h1]
    by_cases h2 : one.length < L
    · have hlt : decide (((one.length : Nat) : Int) < (L : Int)) = true := by
        simp only [decide_eq_true_eq]; omega
      simp only [hlt, if_true, h2, pySub_int, bnd_ok, pyMul_list_int, replicateList_singleton,
        toNat_sub_natCast, natsPV_def, pyAdd_list, List.map_append, List.map_replicate]
      rfl
    · have hlt : decide (((one.length : Nat) : Int) < (L : Int)) = false := by
        simp only [decide_eq_false_iff_not]; omega
      simp only [hlt, Bool.false_eq_true, if_false, h2, pySliceV_natsPV_to, bnd_ok]

/-- one iteration of the string loop. -/
theorem while1_body_spec (fuel : Nat) (n : Dec) (hn : Digits n) (acc : List Nat)
    (e : Gen.number_to_bit.Env) (hd : e.decimal_number = dstr n) (ho : e.one_array = natsPV acc) :
    ∃ e', Gen.number_to_bit.while1_body fuel e = .ok (.norm e') ∧
      e'.decimal_number = dstr (calculusDivision n 2).1 ∧
      e'.one_array = natsPV ((calculusDivision n 2).2.toNat :: acc) ∧ e'.bit_length = e.bit_length := by
  obtain ⟨_, r, hr, hsnd⟩ := calculusDivision_digits hn (b := 2) (by omega) (by omega)
  have hr10 : r < 10 := by omega
  have hdiv : Gen.calculus_division fuel (dstr n) (.str ['2']) =
      .ok (.tup [dstr (calculusDivision n 2).1, dstr (calculusDivision n 2).2]) := by
    rw [str_lit_two]; exact tie_calculus_division n 2 fuel hn (by omega)
  simp only [Gen.number_to_bit.while1_body, hd, ho, hdiv, hsnd, bnd_ok, pyUnpack_two_tup, getD_cons_zero',
    getD_cons_one', dstr_singleton, pyInt_digit hr10, pyInsert_natsPV_zero, Dec.toNat_single]
  exact ⟨_, rfl, rfl, rfl, rfl⟩

theorem while1_cond_spec (fuel : Nat) (n : Dec) (hn : Digits n) (e : Gen.number_to_bit.Env)
    (hd : e.decimal_number = dstr n) :
    Gen.number_to_bit.while1_cond fuel e = .ok (!decide (n = [0])) := by
  have h0 : Digits [0] := Digits_singleton.mpr (by omega)
  simp only [Gen.number_to_bit.while1_cond, hd, pyNe_def, str_lit_zero, eqb_dstr hn h0]

/-- the generated loop follows the model loop `digitsStrLoop 2` iteration by iteration. -/
theorem while1_loop (fuel : Nat) : ∀ (f : Nat) (n : Dec) (acc r : List Nat) (w : Nat)
    (e : Gen.number_to_bit.Env), Digits n → e.decimal_number = dstr n → e.one_array = natsPV acc →
    digitsStrLoop 2 f n acc = .ok r → f ≤ w →
    ∃ e', whileLoop (Gen.number_to_bit.while1_cond fuel) (Gen.number_to_bit.while1_body fuel) w e =
        .ok (.norm e') ∧ e'.one_array = natsPV r ∧ e'.bit_length = e.bit_length := by
  intro f
  induction f with
  | zero => intro n acc r w e _ _ _ h _; simp [digitsStrLoop] at h
  | succ f ih =>
    intro n acc r w e hn hd ho h hw
    obtain ⟨w, rfl⟩ : ∃ w', w = w' + 1 := ⟨w - 1, by omega⟩
    rw [digitsStrLoop] at h
    by_cases hz : n = [0]
    · rw [if_pos hz] at h
      injection h with h
      have hc : Gen.number_to_bit.while1_cond fuel e = .ok false := by
        rw [while1_cond_spec fuel n hn e hd]; simp [hz]
      exact ⟨e, whileLoop_false hc w, by rw [ho, h], rfl⟩
    · rw [if_neg hz] at h
      have hc : Gen.number_to_bit.while1_cond fuel e = .ok true := by
        rw [while1_cond_spec fuel n hn e hd]; simp [hz]
      obtain ⟨e1, hb, hd1, ho1, hl1⟩ := while1_body_spec fuel n hn acc e hd ho
      obtain ⟨e2, hl, ho2, hl2⟩ := ih _ _ r w e1
        (calculusDivision_digits hn (b := 2) (by omega) (by omega)).1 hd1 ho1 h (by omega)
      exact ⟨e2, by rw [whileLoop_true_norm hc hb, hl], ho2, by rw [hl2, hl1]⟩

/-- the `divmod` loop computes `digitsNat 2`; `k + 1` iterations suffice for `n < 2 ^ k`. -/
theorem while2_loop (fuel : Nat) : ∀ (k n : Nat) (acc : List Nat) (w : Nat)
    (e : Gen.number_to_bit.Env), e.decimal_number = .int (n : Int) → e.one_array = natsPV acc →
    n < 2 ^ k → k + 1 ≤ w →
    ∃ e', whileLoop (Gen.number_to_bit.while2_cond fuel) (Gen.number_to_bit.while2_body fuel) w e =
        .ok (.norm e') ∧ e'.one_array = natsPV (digitsNat 2 n acc) ∧ e'.bit_length = e.bit_length := by
  intro k
  induction k with
  | zero =>
    intro n acc w e hd ho hn hw
    obtain ⟨w, rfl⟩ : ∃ w', w = w' + 1 := ⟨w - 1, by omega⟩
    have hn0 : n = 0 := by simpa using hn
    subst hn0
    have hc : Gen.number_to_bit.while2_cond fuel e = .ok false := by
      simp only [Gen.number_to_bit.while2_cond, hd, pyGt_nat_zero]; rfl
    exact ⟨e, whileLoop_false hc w, by rw [ho, digitsNat_zero_cv], rfl⟩
  | succ k ih =>
    intro n acc w e hd ho hn hw
    obtain ⟨w, rfl⟩ : ∃ w', w = w' + 1 := ⟨w - 1, by omega⟩
    by_cases hn0 : n = 0
    · subst hn0
      have hc : Gen.number_to_bit.while2_cond fuel e = .ok false := by
        simp only [Gen.number_to_bit.while2_cond, hd, pyGt_nat_zero]; rfl
      exact ⟨e, whileLoop_false hc w, by rw [ho, digitsNat_zero_cv], rfl⟩
    · have hc : Gen.number_to_bit.while2_cond fuel e = .ok true := by
        simp only [Gen.number_to_bit.while2_cond, hd, pyGt_nat_zero]
        simp; omega
      have hb : ∃ e1, Gen.number_to_bit.while2_body fuel e = .ok (.norm e1) ∧
          e1.decimal_number = .int ((n / 2 : Nat) : Int) ∧ e1.one_array = natsPV (n % 2 :: acc) ∧
          e1.bit_length = e.bit_length := by
        simp only [Gen.number_to_bit.while2_body, hd, ho, pyDivmod_nat_two, bnd_ok, pyUnpack_two_tup,
          getD_cons_zero', getD_cons_one', pyInsert_natsPV_zero]
        exact ⟨_, rfl, rfl, rfl, rfl⟩
      obtain ⟨e1, hb, hd1, ho1, hl1⟩ := hb
      have hlt : n / 2 < 2 ^ k := by
        rw [Nat.pow_succ] at hn; omega
      obtain ⟨e2, hl, ho2, hl2⟩ := ih (n / 2) (n % 2 :: acc) w e1 hd1 ho1 hlt (by omega)
      refine ⟨e2, by rw [whileLoop_true_norm hc hb, hl], ?_, by rw [hl2, hl1]⟩
      rw [ho2, digitsNat_pos 2 n acc hn0 (by omega)]

end BitsTie

open BitsTie

theorem tie_bit_to_number_str (bits : List Nat) (fuel : Nat) (verbose : Bool) (hb : ∀ x ∈ bits, x ≤ 1)
    (hf : 3 ≤ fuel) :
    Gen.bit_to_number fuel (natsPV bits) (.bool true) (.bool verbose) = .ok (dstr (bitToNumberStr bits)) := by
  simp only [Gen.bit_to_number, Gen.bit_to_number.body, truthy_bool, bnd_ok, if_true, pyEnumerate_natsPV,
    pyIter_list]
  apply callResult_seq_of_norm (StrRel verbose (bitToNumberStr bits))
  · exact for1_loop fuel hf verbose bits hb [0] _ ⟨str_lit_zero, rfl, Digits_singleton.mpr (by omega)⟩
  · intro e' h
    simp only [Gen.bit_to_number.k1, h.1, callResult_ret]

theorem tie_bit_to_number_int (bits : List Nat) (fuel : Nat) (verbose : Bool) :
    Gen.bit_to_number fuel (natsPV bits) (.bool false) (.bool verbose) = .ok (.int (bitToNumberInt bits)) := by
  simp only [Gen.bit_to_number, Gen.bit_to_number.body, truthy_bool, bnd_ok, Bool.false_eq_true, if_false,
    pyEnumerate_natsPV, pyIter_list]
  apply callResult_seq_of_norm (IntRel verbose (bitToNumberInt bits))
  · exact for2_loop fuel verbose bits 0 _ ⟨rfl, rfl⟩
  · intro e' h
    simp only [Gen.bit_to_number.k1, h.1, callResult_ret]

theorem tie_number_to_bit_str (n : Dec) (L fuel : Nat) (r : List Nat) (hn : Digits n)
    (h : numberToBitStr n L = .ok r) (hf : digitsFuel n + 1 ≤ fuel) :
    Gen.number_to_bit fuel (dstr n) (.int L) = .ok (natsPV r) := by
  unfold numberToBitStr at h
  cases hloop : digitsStrLoop 2 (digitsFuel n) n [] with
  | error err => rw [hloop] at h; cases h
  | ok one =>
    rw [hloop] at h
    injection h with h
    have htype : pyTypeIs (dstr n) "str" = true := rfl
    simp only [Gen.number_to_bit, Gen.number_to_bit.body, htype, bnd_ok, if_true]
    apply callResult_seq_of_norm (fun e' => e'.one_array = natsPV one ∧ e'.bit_length = .int (L : Int))
    · exact while1_loop fuel (digitsFuel n) n [] one fuel _ hn rfl rfl hloop (by omega)
    · intro e' h'
      rw [k1_spec fuel e' one L h'.1 h'.2, callResult_ret, ← h]

theorem tie_number_to_bit_int (n L fuel : Nat) (hf : Nat.log2 n + 2 ≤ fuel) :
    Gen.number_to_bit fuel (.int n) (.int L) = .ok (natsPV (numberToBitInt n L)) := by
  simp only [Gen.number_to_bit, Gen.number_to_bit.body, pyTypeIs_int_str, pyTypeIs_int_int, bnd_ok,
    Bool.false_eq_true, if_false, if_true]
  apply callResult_seq_of_norm
    (fun e' => e'.one_array = natsPV (digitsNat 2 n []) ∧ e'.bit_length = .int (L : Int))
  · exact while2_loop fuel (Nat.log2 n + 1) n [] fuel _ rfl rfl Nat.lt_log2_self (by omega)
  · intro e' h'
    rw [k1_spec fuel e' _ L h'.1 h'.2, callResult_ret]; rfl

/-- any other argument type (including `bool`, which `type(x) == int` rejects) is `ValueError`. -/
theorem tie_number_to_bit_other (v L : PV) (fuel : Nat) (h1 : ∀ s, v ≠ .str s) (h2 : ∀ i, v ≠ .int i)
    (h3 : v ≠ .unbound) :
    Gen.number_to_bit fuel v L = .error .valueError := by
  cases v with
  | int i => exact absurd rfl (h2 i)
  | str s => exact absurd rfl (h1 s)
  | unbound => exact absurd rfl h3
  | list l => rfl
  | tup l => rfl
  | bool b => rfl
  | none => rfl
  | arr l => rfl
  | set l => rfl
  | dict ks vs => rfl
  | rat n d => rfl

end Dsw.Tie
