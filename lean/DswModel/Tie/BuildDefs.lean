import DswModel.Tie.ViewDefs
import DswModel.Gen.Spiderweb
/-!
# DswModel.Tie.BuildDefs — vertex masks as the NumPy arrays the graph builders receive and return
-/
namespace Dsw.Tie
open Dsw Dsw.Py

/-- a vertex mask as a one-dimensional NumPy array: boolean, or 0/1 integers. -/
def maskPV (asInt : Bool) (m : Mask) : PV :=
  .arr (m.toList.map fun b => if asInt then .int (if b then 1 else 0) else .bool b)

/-- the vertex description returned by `connect_coding_graph` denotes the vertex list `vs`:
for threshold 1 it is the index array itself, otherwise a mask of `n` cells whose truthy cells are exactly `vs`. -/
def Denotes (d : PV) (vs : List Nat) (n t : Nat) : Prop :=
  if t = 1 then d = idxArrPV vs
  else ∃ items : List PV, d = .arr items ∧ items.length = n ∧
    ∀ i, i < n → (items.getD i .none).truthy = decide (i ∈ vs)

end Dsw.Tie

namespace Dsw.Tie
open Dsw Dsw.Py

/-- a constraint filter as the table of its answers on the `4^k` k-mers (the only strings `find_vertices` asks about). -/
def tablePV (k : Nat) (P : List Char → Bool) : PV :=
  .dict ((List.range (4 ^ k)).map fun i => .str (numberToDnaInt i k))
        ((List.range (4 ^ k)).map fun i => .bool (P (numberToDnaInt i k)))

end Dsw.Tie
