import DswModel.Model.Basic
import DswModel.Model.Float
/-!
# DswModel.Py.Value — the Python fragment the translator `harness/py2lean.py` targets

A small *shallow* embedding of the Python that `dsw/operation.py` is written in: dynamically typed
values (`PV`), the built-in operations the translated functions use (each returns `R PV`, i.e. a
value or a Python exception class), and the control-flow plumbing (`Flow`, `seq`) that the generated
definitions are made of.  Everything here is hand-written and therefore part of the trusted base of
the *translation tie* (see DESIGN.md §11); it is exercised against CPython by the driver operations
`gen_*` on every run.

Core Lean only: the generated definitions are linked into the native driver.
-/
namespace Dsw.Py
open Dsw

/-- a Python value of the fragment. `unbound` marks a local that has not been assigned yet
(reading it is `UnboundLocalError`, modelled as `PyErr.other`). -/
inductive PV where
  | int (i : Int)
  | str (s : List Char)
  | list (l : List PV)
  | tup (l : List PV)
  | bool (b : Bool)
  | none
  | unbound
  | arr (l : List PV)     -- a NumPy array: 1-D when the items are scalars, 2-D when they are arrays
  | set (l : List PV)     -- a set: its distinct elements in insertion order
  | dict (ks vs : List PV) -- a dict: keys and values in insertion order (same length)
  | rat (num den : Int)   -- the result of a true division `a / b` of two ints (`den > 0`); only its sign is ever used
deriving Repr, Inhabited

abbrev RV := R PV

/-! ## control flow -/

/-- how a statement list ends: normally, by `break`, by `continue`, or by `return v`. -/
inductive Flow (ε : Type) where
  | norm (e : ε)
  | brk (e : ε)
  | cnt (e : ε)
  | ret (v : PV)
deriving Inhabited

/-- statement sequencing: run `k` only if `m` ended normally. -/
@[inline] def seq {ε} (m : R (Flow ε)) (k : ε → R (Flow ε)) : R (Flow ε) :=
  match m with
  | .error e => .error e
  | .ok (.norm e) => k e
  | .ok f => .ok f

/-- what a loop does with the outcome of one iteration of its body. -/
inductive LoopStep (ε : Type) where
  | again (e : ε)      -- fell through or `continue`
  | stop (e : ε)       -- `break`
  | out (v : PV)       -- `return`

def Flow.loopStep {ε} : Flow ε → LoopStep ε
  | .norm e => .again e
  | .cnt e => .again e
  | .brk e => .stop e
  | .ret v => .out v

/-- `for x in items: body` (no `else` clause). -/
def forLoop {ε} (body : PV → ε → R (Flow ε)) : List PV → ε → R (Flow ε)
  | [], e => .ok (.norm e)
  | x :: xs, e =>
    match body x e with
    | .error err => .error err
    | .ok f =>
      match f.loopStep with
      | .again e' => forLoop body xs e'
      | .stop e' => .ok (.norm e')
      | .out v => .ok (.ret v)

/-- `while cond: body` with fuel (`outOfFuel` is not a Python outcome). -/
def whileLoop {ε} (cond : ε → R Bool) (body : ε → R (Flow ε)) : Nat → ε → R (Flow ε)
  | 0, _ => .error .outOfFuel
  | fuel + 1, e =>
    match cond e with
    | .error err => .error err
    | .ok false => .ok (.norm e)
    | .ok true =>
      match body e with
      | .error err => .error err
      | .ok f =>
        match f.loopStep with
        | .again e' => whileLoop cond body fuel e'
        | .stop e' => .ok (.norm e')
        | .out v => .ok (.ret v)

/-- the value of a function call: the returned value, or `None` when the body falls off the end. -/
def callResult {ε} (m : R (Flow ε)) : RV :=
  match m with
  | .error e => .error e
  | .ok (.ret v) => .ok v
  | .ok _ => .ok .none

/-! ## equality, truthiness, ordering -/

mutual
/-- Python `==` on the fragment (`True == 1`, lists and tuples element-wise, never an error). -/
def PV.eqb : PV → PV → Bool
  | .int a, .int b => a == b
  | .str a, .str b => a == b
  | .bool a, .bool b => a == b
  | .int a, .bool b => a == (if b then 1 else 0)
  | .bool a, .int b => (if a then 1 else 0) == b
  | .list a, .list b => PV.eqbList a b
  | .tup a, .tup b => PV.eqbList a b
  | .arr a, .arr b => PV.eqbList a b
  | .rat n d, .int b => n == b * d
  | .int a, .rat n d => a * d == n
  | .rat n d, .rat m c => n * c == m * d
  | .none, .none => true
  | _, _ => false
def PV.eqbList : List PV → List PV → Bool
  | [], [] => true
  | x :: xs, y :: ys => PV.eqb x y && PV.eqbList xs ys
  | _, _ => false
end

/-- Python truthiness. -/
def PV.truthy : PV → Bool
  | .int i => i != 0
  | .str s => !s.isEmpty
  | .list l => !l.isEmpty
  | .tup l => !l.isEmpty
  | .bool b => b
  | .none => false
  | .unbound => false
  | .arr l => !l.isEmpty      -- (NumPy raises for more than one element; conditions on arrays are outside the fragment)
  | .set l => !l.isEmpty
  | .dict ks _ => !ks.isEmpty
  | .rat n _ => n != 0

/-- bind of the exception monad, spelled out so that `simp` sees through it. -/
@[inline] def bnd {α β} (m : R α) (k : α → R β) : R β :=
  match m with
  | .ok a => k a
  | .error e => .error e

@[simp] theorem bnd_ok {α β} (a : α) (k : α → R β) : bnd (.ok a) k = k a := rfl
@[simp] theorem bnd_error {α β} (e : PyErr) (k : α → R β) : bnd (.error e : R α) k = .error e := rfl

/-- reading a local variable. -/
@[inline] def getVar (v : PV) : RV :=
  match v with
  | .unbound => .error .other
  | v => .ok v

def PV.asInt? : PV → Option Int
  | .int i => some i
  | .bool b => some (if b then 1 else 0)
  | _ => Option.none

/-- lexicographic `<` on strings by code point. -/
def strLt : List Char → List Char → Bool
  | [], [] => false
  | [], _ :: _ => true
  | _ :: _, [] => false
  | a :: as, b :: bs => if a.toNat < b.toNat then true else if a.toNat > b.toNat then false else strLt as bs

/-- Python `<` (numbers with numbers, strings with strings; anything else is `TypeError`). -/
def pyLt (a b : PV) : R Bool :=
  match a.asInt?, b.asInt? with
  | some x, some y => .ok (decide (x < y))
  | _, _ =>
    match a, b with
    | .str s, .str t => .ok (strLt s t)
    | .rat n d, .rat m c => .ok (decide (n * c < m * d))
    | .rat n d, y => match y.asInt? with
                     | some y => .ok (decide (n < y * d))
                     | Option.none => .error .typeError
    | x, .rat n d => match x.asInt? with
                     | some x => .ok (decide (x * d < n))
                     | Option.none => .error .typeError
    | _, _ => .error .typeError

def pyLe (a b : PV) : R Bool :=
  match a.asInt?, b.asInt? with
  | some x, some y => .ok (decide (x ≤ y))
  | _, _ =>
    match a, b with
    | .str s, .str t => .ok (!strLt t s)
    | .rat n d, .rat m c => .ok (decide (n * c ≤ m * d))
    | .rat n d, y => match y.asInt? with
                     | some y => .ok (decide (n ≤ y * d))
                     | Option.none => .error .typeError
    | x, .rat n d => match x.asInt? with
                     | some x => .ok (decide (x * d ≤ n))
                     | Option.none => .error .typeError
    | _, _ => .error .typeError

@[inline] def pyGt (a b : PV) : R Bool := pyLt b a
@[inline] def pyGe (a b : PV) : R Bool := pyLe b a
@[inline] def pyEq (a b : PV) : R Bool := .ok (PV.eqb a b)
@[inline] def pyNe (a b : PV) : R Bool := .ok (!PV.eqb a b)

/-! ## floats

A Python `float` is a `.rat num den` whose value is a double (`Model/Float.lean`): an operation with a float operand
converts an int operand with `float()` and rounds the exact result to the nearest double. (`a / b` on two ints,
`pyTrueDiv` below, is the one place that keeps the exact quotient.) -/

def PV.isRat : PV → Bool
  | .rat _ _ => true
  | _ => false

/-- the operand of a float operation: a float, or an int converted with `float()`. -/
def PV.asDbl? : PV → Option Dbl
  | .rat n d => if d > 0 then some ⟨n, d.toNat⟩ else Option.none
  | .int i => Dbl.ofInt i
  | .bool b => some ⟨if b then 1 else 0, 1⟩
  | _ => Option.none

/-- a float result; a result that would be `inf` is outside the fragment (`PyErr.other`). -/
def ratOfDbl : Option Dbl → RV
  | some x => .ok (.rat x.num x.den)
  | Option.none => .error .other

/-- `a op b` when one operand is a float (`TypeError` otherwise; an int too large for `float()` is `OverflowError`). -/
def floatOp (f : Dbl → Dbl → Option Dbl) (a b : PV) : RV :=
  if a.isRat || b.isRat then
    match a.asDbl?, b.asDbl? with
    | some x, some y => ratOfDbl (f x y)
    | _, _ => match a.asInt?, b.asInt? with
              | some _, _ => .error .overflowError
              | _, some _ => .error .overflowError
              | _, _ => .error .typeError
  else .error .typeError

/-! ## arithmetic -/

def replicateList {α} (n : Int) (l : List α) : List α :=
  (List.replicate n.toNat l).flatten

/-- `a + b`: ints, string and list concatenation. -/
def pyAdd (a b : PV) : RV :=
  match a.asInt?, b.asInt? with
  | some x, some y => .ok (.int (x + y))
  | _, _ =>
    match a, b with
    | .str s, .str t => .ok (.str (s ++ t))
    | .list s, .list t => .ok (.list (s ++ t))
    | .tup s, .tup t => .ok (.tup (s ++ t))
    | _, _ => floatOp Dbl.add a b

def pySub (a b : PV) : RV :=
  match a.asInt?, b.asInt? with
  | some x, some y => .ok (.int (x - y))
  | _, _ => floatOp Dbl.sub a b

/-- `a * b`: ints, and sequence repetition (a non-positive count gives the empty sequence). -/
def pyMul (a b : PV) : RV :=
  match a.asInt?, b.asInt? with
  | some x, some y => .ok (.int (x * y))
  | _, _ =>
    match a, b.asInt?, a.asInt?, b with
    | .str s, some n, _, _ => .ok (.str (replicateList n s))
    | .list s, some n, _, _ => .ok (.list (replicateList n s))
    | _, _, some n, .str s => .ok (.str (replicateList n s))
    | _, _, some n, .list s => .ok (.list (replicateList n s))
    | _, _, _, _ => floatOp Dbl.mul a b

/-- `a // b` on ints (floor division; `ZeroDivisionError` is `PyErr.other`). -/
def pyFloorDiv (a b : PV) : RV :=
  match a.asInt?, b.asInt? with
  | some x, some y => if y = 0 then .error .other else .ok (.int (Int.fdiv x y))
  | _, _ => .error .typeError

/-- `a % b` on ints (sign of the divisor). String formatting is outside the fragment. -/
def pyMod (a b : PV) : RV :=
  match a.asInt?, b.asInt? with
  | some x, some y => if y = 0 then .error .other else .ok (.int (Int.fmod x y))
  | _, _ => .error .typeError

/-- `divmod(a, b)`. -/
def pyDivmod (a b : PV) : RV :=
  match a.asInt?, b.asInt? with
  | some x, some y => if y = 0 then .error .other else .ok (.tup [.int (Int.fdiv x y), .int (Int.fmod x y)])
  | _, _ => .error .typeError

def pyNeg (a : PV) : RV :=
  match a.asInt? with
  | some x => .ok (.int (-x))
  | Option.none => match a with
                   | .rat n d => .ok (.rat (-n) d)
                   | _ => .error .typeError

/-! ## conversions -/

def digitChar (d : Nat) : Char := Char.ofNat (48 + d)

/-- decimal digits of a natural number, most significant first (`str(n)` for `n ≥ 0`). -/
def natDigits (n : Nat) : List Char := Nat.toDigits 10 n

/-- `str(v)` for ints, bools, strings, `None` (containers are outside the fragment). -/
def pyStr (v : PV) : RV :=
  match v with
  | .int i => .ok (.str (if i < 0 then '-' :: natDigits i.natAbs else natDigits i.natAbs))
  | .str s => .ok (.str s)
  | .bool true => .ok (.str "True".toList)
  | .bool false => .ok (.str "False".toList)
  | .none => .ok (.str "None".toList)
  | _ => .error .other

def charDigit? (c : Char) : Option Nat :=
  if '0'.toNat ≤ c.toNat ∧ c.toNat ≤ '9'.toNat then some (c.toNat - '0'.toNat) else Option.none

/-- value of a non-empty all-digit string. -/
def parseNat? : List Char → Option Nat
  | [] => Option.none
  | cs => cs.foldl (fun acc c => match acc, charDigit? c with
                                  | some a, some d => some (a * 10 + d)
                                  | _, _ => Option.none) (some 0)

/-- `int(v)`: ints and bools unchanged; a string of ASCII digits with an optional sign.
(CPython also accepts surrounding white space, underscores and non-ASCII digits: outside the
fragment, reported as `ValueError` here.) -/
def pyInt (v : PV) : RV :=
  match v with
  | .int i => .ok (.int i)
  | .bool b => .ok (.int (if b then 1 else 0))
  | .str ('-' :: cs) => match parseNat? cs with
                        | some n => .ok (.int (-(n : Int)))
                        | Option.none => .error .valueError
  | .str ('+' :: cs) => match parseNat? cs with
                        | some n => .ok (.int n)
                        | Option.none => .error .valueError
  | .str cs => match parseNat? cs with
               | some n => .ok (.int n)
               | Option.none => .error .valueError
  | .rat n d => if d > 0 then .ok (.int (Int.tdiv n d)) else .error .other     -- `int(float)` truncates toward zero
  | _ => .error .typeError

/-- the items a `for` loop / `list()` / `map` / `join` sees. -/
def pyIter (v : PV) : R (List PV) :=
  match v with
  | .list l => .ok l
  | .tup l => .ok l
  | .str s => .ok (s.map fun c => .str [c])
  | .arr l => .ok l
  | .set l => .ok l
  | .dict ks _ => .ok ks
  | _ => .error .typeError

def pyList (v : PV) : RV := (pyIter v).map .list

def pyLen (v : PV) : RV :=
  match v with
  | .list l => .ok (.int l.length)
  | .tup l => .ok (.int l.length)
  | .str s => .ok (.int s.length)
  | .arr l => .ok (.int l.length)
  | .set l => .ok (.int l.length)
  | .dict ks _ => .ok (.int ks.length)
  | _ => .error .typeError

/-- `range(a, b, s)` as an eager list. -/
def rangeList (a b s : Int) : List Int :=
  if s > 0 then
    (List.range ((b - a + s - 1) / s).toNat).map fun (i : Nat) => a + s * (i : Int)
  else if s < 0 then
    (List.range ((a - b + (-s) - 1) / (-s)).toNat).map fun (i : Nat) => a + s * (i : Int)
  else []

def pyRange3 (a b s : PV) : RV :=
  match a, b, s with
  | .int a, .int b, .int s => if s = 0 then .error .valueError else .ok (.list ((rangeList a b s).map .int))
  | _, _, _ => .error .typeError

def pyRange2 (a b : PV) : RV := pyRange3 a b (.int 1)
def pyRange1 (b : PV) : RV := pyRange3 (.int 0) b (.int 1)

def enumFrom (n : Nat) : List PV → List PV
  | [] => []
  | x :: xs => .tup [.int n, x] :: enumFrom (n + 1) xs

/-- `enumerate(v)` as an eager list of pairs. -/
def pyEnumerate (v : PV) : RV := (pyIter v).map fun l => .list (enumFrom 0 l)

/-- `[f(x) for x in items]` / `map(f, items)`, left to right, first exception wins. -/
def mapM' (f : PV → RV) : List PV → R (List PV)
  | [] => .ok []
  | x :: xs =>
    match f x with
    | .error e => .error e
    | .ok y =>
      match mapM' f xs with
      | .error e => .error e
      | .ok ys => .ok (y :: ys)

def pyMap (f : PV → RV) (v : PV) : RV :=
  match pyIter v with
  | .error e => .error e
  | .ok l => (mapM' f l).map .list

/-- `sep.join(items)`: every item must be a string. -/
def joinStrs (sep : List Char) : List PV → R (List Char)
  | [] => .ok []
  | [.str s] => .ok s
  | .str s :: rest => (joinStrs sep rest).map fun t => s ++ sep ++ t
  | _ => .error .typeError

def pyJoin (sep v : PV) : RV :=
  match sep, pyIter v with
  | .str sp, .ok l => (joinStrs sp l).map .str
  | .str _, .error e => .error e
  | _, _ => .error .typeError

/-- `s.zfill(n)` (a leading sign stays in front; not needed by the fragment's callers but kept). -/
def pyZfill (s n : PV) : RV :=
  match s, n with
  | .str ('-' :: cs), .int n => .ok (.str ('-' :: (List.replicate (n.toNat - (cs.length + 1)) '0' ++ cs)))
  | .str ('+' :: cs), .int n => .ok (.str ('+' :: (List.replicate (n.toNat - (cs.length + 1)) '0' ++ cs)))
  | .str cs, .int n => .ok (.str (List.replicate (n.toNat - cs.length) '0' ++ cs))
  | _, _ => .error .typeError

/-- position of the first occurrence of `pat` in `s`. -/
def findSub (pat : List Char) : List Char → Nat → Option Nat
  | [], i => if pat.isEmpty then some i else Option.none
  | c :: cs, i => if pat.isPrefixOf (c :: cs) then some i else findSub pat cs (i + 1)

/-- `s.index(sub)` (`ValueError` when absent). -/
def pyStrIndex (s sub : PV) : RV :=
  match s, sub with
  | .str s, .str p => match findSub p s 0 with
                      | some i => .ok (.int i)
                      | Option.none => .error .valueError
  | _, _ => .error .typeError

/-! ## subscripts -/

/-- first position of `x` in a list (by `==`). -/
def findIdxEq (x : PV) : List PV → Nat → Option Nat
  | [], _ => Option.none
  | y :: ys, i => if PV.eqb y x then some i else findIdxEq x ys (i + 1)

/-- index normalisation for `seq[i]` (`IndexError` outside `-n … n-1`). -/
def normIndex (n : Nat) (i : Int) : Option Nat :=
  let j := if i < 0 then i + n else i
  if 0 ≤ j ∧ j < n then some j.toNat else Option.none

def pyIndexSeq (v i : PV) : RV :=
  match i.asInt? with
  | Option.none => .error .typeError
  | some i =>
    match v with
    | .list l => match normIndex l.length i with
                 | some j => .ok (l.getD j .none)
                 | Option.none => .error .indexError
    | .tup l => match normIndex l.length i with
                | some j => .ok (l.getD j .none)
                | Option.none => .error .indexError
    | .str s => match normIndex s.length i with
                | some j => .ok (.str [s.getD j 'A'])
                | Option.none => .error .indexError
    | .arr l => match normIndex l.length i with
                | some j => .ok (l.getD j .none)
                | Option.none => .error .indexError
    | _ => .error .typeError

/-- `v[i]`: a dict looks the key up (`KeyError` is `PyErr.other`), a sequence is indexed. -/
def pyIndex (v i : PV) : RV :=
  match v with
  | .dict ks vs => match findIdxEq i ks 0 with
                   | some j => .ok (vs.getD j .none)
                   | Option.none => .error .other
  | .arr _ =>
    match i with
    | .list js => (mapM' (fun k => pyIndexSeq v k) js).map .arr      -- `a[[i, j, …]]` gathers
    | .arr js => (mapM' (fun k => pyIndexSeq v k) js).map .arr
    | _ => pyIndexSeq v i
  | _ => pyIndexSeq v i

/-- an optional slice bound: `None` or an int. -/
def boundOr (v : PV) (dflt : Int) : R Int :=
  match v with
  | .none => .ok dflt
  | .int i => .ok i
  | .bool b => .ok (if b then 1 else 0)
  | _ => .error .typeError

/-- `v[a:b]` with step 1 (`a`, `b` may be `None`). -/
def pySliceV (v a b : PV) : RV :=
  match v with
  | .list l => match boundOr a 0, boundOr b l.length with
               | .ok a, .ok b => .ok (.list (pySlice l a b))
               | .error e, _ => .error e
               | _, .error e => .error e
  | .tup l => match boundOr a 0, boundOr b l.length with
              | .ok a, .ok b => .ok (.tup (pySlice l a b))
              | .error e, _ => .error e
              | _, .error e => .error e
  | .str l => match boundOr a 0, boundOr b l.length with
              | .ok a, .ok b => .ok (.str (pySlice l a b))
              | .error e, _ => .error e
              | _, .error e => .error e
  | .arr l => match boundOr a 0, boundOr b l.length with
              | .ok a, .ok b => .ok (.arr (pySlice l a b))
              | .error e, _ => .error e
              | _, .error e => .error e
  | _ => .error .typeError

/-- `v[::-1]`. -/
def pyReverse (v : PV) : RV :=
  match v with
  | .list l => .ok (.list l.reverse)
  | .tup l => .ok (.tup l.reverse)
  | .str l => .ok (.str l.reverse)
  | .arr l => .ok (.arr l.reverse)
  | _ => .error .typeError

/-- `v[i] = x` on a list, as a new list. -/
def pySetItemSeq (v i x : PV) : RV :=
  match v, i.asInt? with
  | .list l, some i => match normIndex l.length i with
                       | some j => .ok (.list (l.set j x))
                       | Option.none => .error .indexError
  | .arr l, some i => match normIndex l.length i, x.asInt? with
                      | some j, some n => .ok (.arr (l.set j (.int n)))     -- integer arrays only
                      | Option.none, _ => .error .indexError
                      | _, Option.none => .error .typeError
  | _, _ => .error .typeError

/-- `v[i] = x`: a dict gets / updates the key (an existing key keeps its position), a sequence is updated. -/
def pySetItem (v i x : PV) : RV :=
  match v with
  | .dict ks vs => match findIdxEq i ks 0 with
                   | some j => .ok (.dict ks (vs.set j x))
                   | Option.none => .ok (.dict (ks ++ [i]) (vs ++ [x]))
  | .arr l =>
    match i.asInt?, x.asInt? with
    | some i', some n =>
      match normIndex l.length i' with
      | some j => match l.getD j .none with
                  | .arr row => .ok (.arr (l.set j (.arr (row.map fun _ => .int n))))    -- `a[i] = c` fills row i
                  | .bool _ => .ok (.arr (l.set j (.bool (n != 0))))                     -- a boolean array stays boolean
                  | _ => pySetItemSeq v i x
      | Option.none => .error .indexError
    | _, _ => pySetItemSeq v i x
  | _ => pySetItemSeq v i x

/-- `v.insert(i, x)` on a list, as a new list (the position clamps like a slice bound). -/
def pyInsert (v i x : PV) : RV :=
  match v, i.asInt? with
  | .list l, some i => let j := pyNorm l.length i
                       .ok (.list (l.take j ++ x :: l.drop j))
  | _, _ => .error .typeError

def pyAppend (v x : PV) : RV :=
  match v with
  | .list l => .ok (.list (l ++ [x]))
  | _ => .error .typeError

/-- unpacking `a, b, … = v` into exactly `n` items (`ValueError` on a length mismatch). -/
def pyUnpack (n : Nat) (v : PV) : R (List PV) :=
  match pyIter v with
  | .error e => .error e
  | .ok l => if l.length = n then .ok l else .error .valueError

/-- `type(v) == str` / `type(v) == int` (`bool` is not `int` for `type(...) ==`). -/
def pyTypeIs (v : PV) (name : String) : Bool :=
  match v, name with
  | .str _, "str" => true
  | .int _, "int" => true
  | .bool _, "bool" => true
  | .list _, "list" => true
  | .tup _, "tuple" => true
  | _, _ => false

/-! ## more built-ins -/

/-- `a ** b` on ints with a non-negative exponent (a negative exponent gives a float in Python:
outside the fragment, reported as `PyErr.other`). -/
def pyPow (a b : PV) : RV :=
  match a.asInt?, b.asInt? with
  | some x, some y => if y < 0 then .error .other else .ok (.int (x ^ y.toNat))
  | _, _ => .error .typeError

/-- `x is None` / `x is not None` (identity is only ever tested against `None` in the fragment). -/
def pyIsNone (v : PV) : Bool :=
  match v with
  | .none => true
  | _ => false

/-- `container.index(x)`: lists and tuples by `==`, strings by sub-string search (`ValueError` when absent). -/
def pyIndexOf (c x : PV) : RV :=
  match c with
  | .str _ => pyStrIndex c x
  | .list l => match findIdxEq x l 0 with
               | some i => .ok (.int i)
               | Option.none => .error .valueError
  | .tup l => match findIdxEq x l 0 with
              | some i => .ok (.int i)
              | Option.none => .error .valueError
  | _ => .error .other

/-- `x in container`. -/
def pyIn (x c : PV) : R Bool :=
  match c, x with
  | .list l, _ => .ok ((findIdxEq x l 0).isSome)
  | .tup l, _ => .ok ((findIdxEq x l 0).isSome)
  | .set l, _ => .ok ((findIdxEq x l 0).isSome)
  | .dict ks _, _ => .ok ((findIdxEq x ks 0).isSome)
  | .str s, .str p => .ok ((findSub p s 0).isSome)
  | .str _, _ => .error .typeError
  | _, _ => .error .typeError

/-! ## NumPy (integer and boolean arrays, one or two dimensions)

NumPy scalars are modelled as plain ints/bools (`int64` wrap-around is outside the fragment). -/

/-- elementwise binary operation between an array and a scalar / an array of the same length. -/
def arrZip (f : PV → PV → RV) : List PV → List PV → R (List PV)
  | [], [] => .ok []
  | x :: xs, y :: ys =>
    match f x y with
    | .error e => .error e
    | .ok z => match arrZip f xs ys with
               | .error e => .error e
               | .ok zs => .ok (z :: zs)
  | _, _ => .error .valueError      -- shapes that do not broadcast

def arrBroadcast (f : PV → PV → RV) (a b : PV) : RV :=
  match a, b with
  | .arr xs, .arr ys => (arrZip f xs ys).map .arr
  | .arr xs, y => (mapM' (fun x => f x y) xs).map .arr
  | x, .arr ys => (mapM' (fun y => f x y) ys).map .arr
  | x, y => f x y

def liftCmp (c : PV → PV → R Bool) (a b : PV) : RV := (c a b).map .bool

/-- `a - b`, `a + b`, `a * b` with NumPy broadcasting when an operand is an array. -/
def npSub (a b : PV) : RV := arrBroadcast pySub a b
/-- `+` on one item of an array: a row of a two-dimensional array broadcasts once more. -/
def addItem (x y : PV) : RV :=
  match x with
  | .arr _ => arrBroadcast pyAdd x y
  | _ => pyAdd x y

def npAdd (a b : PV) : RV :=
  match a, b with
  | .arr _, _ => arrBroadcast addItem a b
  | _, .arr _ => arrBroadcast pyAdd a b
  | _, _ => pyAdd a b
def npMul (a b : PV) : RV :=
  match a, b with
  | .arr _, _ => arrBroadcast pyMul a b
  | _, .arr _ => arrBroadcast pyMul a b
  | _, _ => pyMul a b

/-- comparison of one item of an array: a row of a two-dimensional array broadcasts once more. -/
def cmpItem (c : PV → PV → R Bool) (x y : PV) : RV :=
  match x with
  | .arr _ => arrBroadcast (liftCmp c) x y
  | _ => liftCmp c x y

/-- comparisons: elementwise (an array of bools) when an operand is an array, otherwise Python's. -/
def npCmp (c : PV → PV → R Bool) (a b : PV) : RV :=
  match a, b with
  | .arr _, _ => arrBroadcast (cmpItem c) a b
  | _, .arr _ => arrBroadcast (liftCmp c) a b
  | _, _ => (c a b).map .bool

/-- indices of the truthy entries. -/
def trueIdx : List PV → Nat → List PV
  | [], _ => []
  | x :: xs, i => if x.truthy then .int i :: trueIdx xs (i + 1) else trueIdx xs (i + 1)

def PV.isArr : PV → Bool
  | .arr _ => true
  | _ => false

/-- row and column indices of the truthy cells of a two-dimensional array, row-major. -/
def trueIdx2 : List PV → Nat → List PV × List PV
  | [], _ => ([], [])
  | r :: rs, i =>
    let cols := match r with
      | .arr cells => trueIdx cells 0
      | _ => []
    let rest := trueIdx2 rs (i + 1)
    (cols.map (fun _ => PV.int i) ++ rest.1, cols ++ rest.2)

/-- `numpy.where(cond)`: for a one-dimensional array a 1-tuple holding the index array; for a two-dimensional array
(every item is a row) the pair (row indices, column indices) of the truthy cells in row-major order. -/
def npWhere (c : PV) : RV :=
  match c with
  | .arr l =>
    if l.any PV.isArr then .ok (.tup [.arr (trueIdx2 l 0).1, .arr (trueIdx2 l 0).2])
    else .ok (.tup [.arr (trueIdx l 0)])
  | _ => .error .other

/-- stable ascending argsort of a short integer array (NumPy sorts rows of fewer than 17 items by
insertion, which is stable). -/
def npArgsort (v : PV) : RV :=
  match v with
  | .arr l =>
    match l.mapM PV.asInt? with
    | some ks => .ok (.arr ((Dsw.argsort ks).map fun (i : Nat) => .int (i : Int)))
    | Option.none => .error .typeError
  | _ => .error .other

/-- `numpy.sum` of a one-dimensional integer/boolean array. -/
def npSum (v : PV) : RV :=
  match v with
  | .arr l => match l.mapM PV.asInt? with
              | some ks => .ok (.int (ks.foldl (· + ·) 0))
              | Option.none => .error .typeError
  | .list l => match l.mapM PV.asInt? with
               | some ks => .ok (.int (ks.foldl (· + ·) 0))
               | Option.none => .error .typeError
  | _ => .error .other

/-- `numpy.array(x, dtype=int)`: a (nested) list of ints becomes an array. -/
def npArrayItem (v : PV) : RV :=
  match v with
  | .list l => .ok (.arr l)
  | .tup l => .ok (.arr l)
  | .arr l => .ok (.arr l)
  | .int i => .ok (.int i)
  | .bool b => .ok (.int (if b then 1 else 0))
  | _ => .error .other

def npArray (v : PV) : RV :=
  match v with
  | .list l => (mapM' npArrayItem l).map .arr
  | .tup l => (mapM' npArrayItem l).map .arr
  | .arr l => .ok (.arr l)
  | _ => .error .other

/-- `numpy.zeros(shape=(n,), dtype=int)`. -/
def npZeros (shape : PV) : RV :=
  match shape with
  | .tup [.int n] => if n < 0 then .error .valueError else .ok (.arr (List.replicate n.toNat (.int 0)))
  | .int n => if n < 0 then .error .valueError else .ok (.arr (List.replicate n.toNat (.int 0)))
  | _ => .error .other

/-- `a[i, j]`: row `i`, then `j` is an int (one entry) or an index array (gather). -/
def npIndex2 (a i j : PV) : RV :=
  match pyIndex a i with
  | .error e => .error e
  | .ok row =>
    match j with
    | .arr js => (mapM' (fun k => pyIndex row k) js).map .arr
    | _ => pyIndex row j

/-- `a[idx]` where `idx` may be an index array (gather) or an int. -/
def npIndex (a i : PV) : RV :=
  match a, i with
  | .arr _, .arr js => (mapM' (fun k => pyIndex a k) js).map .arr
  | _, _ => pyIndex a i

/-! ## NumPy, second instalment (two-dimensional construction and element assignment) -/

/-- `-a` on an int or an integer array of one or two dimensions. -/
def npNegList : List PV → R (List PV)
  | [] => .ok []
  | x :: xs =>
    match (match x with
           | .arr row => (mapM' pyNeg row).map PV.arr
           | y => pyNeg y), npNegList xs with
    | .ok y, .ok ys => .ok (y :: ys)
    | .error e, _ => .error e
    | _, .error e => .error e

def npNeg (a : PV) : RV :=
  match a with
  | .arr l => (npNegList l).map .arr
  | x => pyNeg x

/-- an array of shape `(n,)` or `(n, m)` filled with `c`. -/
def npFull (c : Int) (shape : PV) : RV :=
  match shape with
  | .tup [.int n] => if n < 0 then .error .valueError else .ok (.arr (List.replicate n.toNat (.int c)))
  | .int n => if n < 0 then .error .valueError else .ok (.arr (List.replicate n.toNat (.int c)))
  | .tup [.int n, .int m] =>
    if n < 0 ∨ m < 0 then .error .valueError
    else .ok (.arr (List.replicate n.toNat (.arr (List.replicate m.toNat (.int c)))))
  | _ => .error .other

/-- `numpy.ones(shape, dtype=int)`. -/
def npOnes (shape : PV) : RV := npFull 1 shape

/-- `a[i][j] = x` / `a[i, j] = x` on a two-dimensional integer array, as a new array. -/
def npSetItem2 (a i j x : PV) : RV :=
  match a, i.asInt? with
  | .arr rows, some i =>
    match normIndex rows.length i with
    | Option.none => .error .indexError
    | some r =>
      match pySetItem (rows.getD r .none) j x with
      | .error e => .error e
      | .ok row' => .ok (.arr (rows.set r row'))
  | _, _ => .error .typeError

/-! ## sets, zip, sorted, filter, itertools.product, del

A `set` is modelled as the list of its distinct elements **in insertion order** (`list(s)` and iteration
see that order; CPython's order depends on the hashes — the functions in the fragment only feed such lists
into order-insensitive uses: `len`, membership, `itertools.product` followed by a set and `sorted`). -/

/-- `s.add(x)`. -/
def pySetAdd (s x : PV) : RV :=
  match s with
  | .set l => .ok (.set (if (findIdxEq x l 0).isSome then l else l ++ [x]))
  | _ => .error .other

/-- `zip(a, b)` as an eager list of pairs (stops at the shorter one). -/
def zipPairs : List PV → List PV → List PV
  | x :: xs, y :: ys => .tup [x, y] :: zipPairs xs ys
  | _, _ => []

def pyZip (a b : PV) : RV :=
  match pyIter a, pyIter b with
  | .ok xs, .ok ys => .ok (.list (zipPairs xs ys))
  | .error e, _ => .error e
  | _, .error e => .error e

/-- insertion into a list sorted by Python's `<` (strings with strings, numbers with numbers). -/
def insertSortedPV (x : PV) : List PV → R (List PV)
  | [] => .ok [x]
  | y :: ys =>
    match pyLt x y with
    | .error e => .error e
    | .ok true => .ok (x :: y :: ys)
    | .ok false => (insertSortedPV x ys).map (y :: ·)

/-- `sorted(items)` (stable; `TypeError` for items that do not compare). -/
def sortPV : List PV → R (List PV)
  | [] => .ok []
  | x :: xs =>
    match sortPV xs with
    | .error e => .error e
    | .ok s => insertSortedPV x s

def pySorted (v : PV) : RV :=
  match pyIter v with
  | .error e => .error e
  | .ok l => (sortPV l.reverse).map .list      -- (reversed first so that equal items keep their order)

/-- `filter(f, items)` as an eager list. -/
def filterM' (f : PV → R Bool) : List PV → R (List PV)
  | [] => .ok []
  | x :: xs =>
    match f x with
    | .error e => .error e
    | .ok b =>
      match filterM' f xs with
      | .error e => .error e
      | .ok ys => .ok (if b then x :: ys else ys)

def pyFilter (f : PV → R Bool) (v : PV) : RV :=
  match pyIter v with
  | .error e => .error e
  | .ok l => (filterM' f l).map .list

/-- `itertools.product(*lists)`: tuples in lexicographic order, the last list varying fastest. -/
def productLists : List (List PV) → List (List PV)
  | [] => [[]]
  | fs :: rest => fs.flatMap fun f => (productLists rest).map (f :: ·)

def pyProduct (v : PV) : RV :=
  match pyIter v with
  | .error e => .error e
  | .ok ls =>
    match ls.mapM (fun l => match pyIter l with | .ok xs => some xs | .error _ => Option.none) with
    | some lists => .ok (.list ((productLists lists).map .tup))
    | Option.none => .error .typeError

/-- `del v[i]` on a list, as a new list. -/
def pyDelItem (v i : PV) : RV :=
  match v, i.asInt? with
  | .list l, some i => match normIndex l.length i with
                       | some j => .ok (.list (l.eraseIdx j))
                       | Option.none => .error .indexError
  | .dict ks vs, _ => match findIdxEq i ks 0 with            -- `del d[key]` (`KeyError` is `PyErr.other`)
                      | some j => .ok (.dict (ks.eraseIdx j) (vs.eraseIdx j))
                      | Option.none => .error .other
  | _, _ => .error .typeError

/-! ## dicts (insertion ordered) and the remaining NumPy idioms of dsw/graphized.py -/

def pyDictItems (d : PV) : RV :=
  match d with
  | .dict ks vs => .ok (.list (zipPairs ks vs))
  | _ => .error .other

def pyDictKeys (d : PV) : RV :=
  match d with
  | .dict ks _ => .ok (.list ks)
  | _ => .error .other

def pyDictValues (d : PV) : RV :=
  match d with
  | .dict _ vs => .ok (.list vs)
  | _ => .error .other

/-- `a.tolist()` (one or two dimensions). -/
def npToList (a : PV) : RV :=
  match a with
  | .arr l => .ok (.list (l.map fun x => match x with | .arr r => .list r | y => y))
  | _ => .error .other

/-- `a.astype(bool)` / `a.astype(int)` elementwise (one or two dimensions). -/
def astypeItem (toBool : Bool) (x : PV) : PV :=
  match x.asInt? with
  | some i => if toBool then .bool (i != 0) else .int i
  | Option.none => x

def npAstype (toBool : Bool) (a : PV) : RV :=
  match a with
  | .arr l => .ok (.arr (l.map fun x => match x with
                                        | .arr r => .arr (r.map (astypeItem toBool))
                                        | y => astypeItem toBool y))
  | x => .ok (astypeItem toBool x)

def npAstypeBool (a : PV) : RV := npAstype true a
def npAstypeInt (a : PV) : RV := npAstype false a

/-- `numpy.sum(a, axis=1)` of a two-dimensional integer/boolean array. -/
def npSumAxis1 (a : PV) : RV :=
  match a with
  | .arr rows => (mapM' npSum rows).map .arr
  | _ => .error .other

/-- `a[mask]` with a boolean mask of the same length. -/
def maskSelect : List PV → List PV → R (List PV)
  | [], [] => .ok []
  | x :: xs, m :: ms =>
    match maskSelect xs ms with
    | .error e => .error e
    | .ok r => .ok (if m.truthy then x :: r else r)
  | _, _ => .error .indexError

def npMaskIndex (a m : PV) : RV :=
  match a, m with
  | .arr xs, .arr ms => (maskSelect xs ms).map .arr
  | _, _ => .error .other


/-! ## true division, boolean arrays -/

/-- `a / b` on ints: the exact quotient (Python gives the nearest float; the fragment only ever compares it
with an int, which is exact for the magnitudes involved). `ZeroDivisionError` is `PyErr.other`. -/
def pyTrueDiv (a b : PV) : RV :=
  match a.asInt?, b.asInt? with
  | some x, some y => if y = 0 then .error .other
                      else if y > 0 then .ok (.rat x y) else .ok (.rat (-x) (-y))
  | _, _ => .error .typeError

/-- `numpy.zeros(shape, dtype=bool)` / `numpy.ones(shape, dtype=bool)`, one dimension. -/
def npFullBool (c : Bool) (shape : PV) : RV :=
  match shape with
  | .tup [.int n] => if n < 0 then .error .valueError else .ok (.arr (List.replicate n.toNat (.bool c)))
  | .int n => if n < 0 then .error .valueError else .ok (.arr (List.replicate n.toNat (.bool c)))
  | _ => .error .other

def npZerosBool (shape : PV) : RV := npFullBool false shape
def npOnesBool (shape : PV) : RV := npFullBool true shape

/-! ## string methods used by `dsw/biofilter.py`, attributes of objects -/

/-- `s.replace(old, new)` for a non-empty `old` (`skip` = characters of a match still to be dropped). -/
def replaceGo (old new : List Char) : Nat → List Char → List Char
  | _, [] => []
  | skip + 1, _ :: cs => replaceGo old new skip cs
  | 0, c :: cs =>
    if old.isPrefixOf (c :: cs) then new ++ replaceGo old new (old.length - 1) cs
    else c :: replaceGo old new 0 cs

/-- `s.replace(old, new)` (all occurrences, left to right, non-overlapping; an empty `old` matches before every
character and at the end). -/
def pyReplace (s old new : PV) : RV :=
  match s, old, new with
  | .str s, .str o, .str n =>
    if o.isEmpty then .ok (.str (n ++ (s.map fun c => c :: n).flatten))
    else .ok (.str (replaceGo o n 0 s))
  | _, _, _ => .error .typeError

/-- `s.upper()` on ASCII strings (a non-ASCII character is outside the fragment: `PyErr.other`). -/
def pyUpper (s : PV) : RV :=
  match s with
  | .str s => if s.all (fun c => c.toNat < 128) then .ok (.str (s.map Char.toUpper)) else .error .other
  | _ => .error .other

/-- number of non-overlapping occurrences of a non-empty `pat`, scanning left to right. -/
def countGo (pat : List Char) : Nat → List Char → Nat
  | _, [] => 0
  | skip + 1, _ :: cs => countGo pat skip cs
  | 0, c :: cs => if pat.isPrefixOf (c :: cs) then 1 + countGo pat (pat.length - 1) cs else countGo pat 0 cs

/-- `s.count(sub)` on strings (`len(s) + 1` for the empty pattern); other receivers are outside the fragment. -/
def pyCount (s sub : PV) : RV :=
  match s, sub with
  | .str s, .str p => if p.isEmpty then .ok (.int (s.length + 1)) else .ok (.int (countGo p 0 s))
  | .str _, _ => .error .typeError
  | _, _ => .error .other

/-- `obj.name` — an object of a translated class is the `.dict` of its attributes (keys = attribute names, in the
order of their first assignment); a missing attribute (`AttributeError`) is `PyErr.other`. -/
def pyGetAttr (obj : PV) (name : String) : RV :=
  match obj with
  | .dict ks vs => match findIdxEq (.str name.toList) ks 0 with
                   | some j => .ok (vs.getD j .none)
                   | Option.none => .error .other
  | _ => .error .other

/-- `obj.name = v`, as a new object. -/
def pySetAttr (obj : PV) (name : String) (v : PV) : RV :=
  match obj with
  | .dict _ _ => pySetItem obj (.str name.toList) v
  | _ => .error .other

/-- what a constructor call returns: the object its `__init__` built (`__init__` may not `return` a value). -/
def initResult {ε} (m : R (Flow ε)) (self : ε → PV) : RV :=
  match m with
  | .error e => .error e
  | .ok (.norm e) => .ok (self e)
  | .ok _ => .error .other

/-! ## objects handed in by the caller

An object whose methods the translated code calls (the constraint filter of `find_vertices`) is represented
by the TABLE of its answers: a `.dict` from the argument to the result. Which method is called does not
matter for a one-method object; an argument outside the table is `PyErr.other`. -/
def pyCallMethod (obj : PV) (_name : String) (args : List PV) : RV :=
  match obj, args with
  | .dict ks vs, [x] => match findIdxEq x ks 0 with
                        | some j => .ok (vs.getD j .none)
                        | Option.none => .error .other
  | _, _ => .error .other

/-! ## `numpy.union1d`, `itertools.combinations(…, 2)`, two-dimensional `zeros` -/

/-- the integers of an array / list, one level of nesting flattened (`numpy.ravel` of what `union1d` receives). -/
def flattenInts (v : PV) : Option (List Int) :=
  let items : Option (List PV) := match v with
    | .arr l => some l
    | .list l => some l
    | .tup l => some l
    | _ => Option.none
  match items with
  | Option.none => Option.none
  | some l => (l.mapM fun (x : PV) => match x with
      | PV.arr r => r.mapM PV.asInt?
      | PV.list r => r.mapM PV.asInt?
      | y => (y.asInt?).map fun i => [i]).map List.flatten

def insertInt (x : Int) : List Int → List Int
  | [] => [x]
  | y :: ys => if x < y then x :: y :: ys else if x = y then y :: ys else y :: insertInt x ys

/-- `numpy.union1d(a, b)`: the sorted distinct values of both. -/
def npUnion1d (a b : PV) : RV :=
  match flattenInts a, flattenInts b with
  | some xs, some ys => .ok (.arr (((xs ++ ys).foldl (fun acc x => insertInt x acc) []).map .int))
  | _, _ => .error .other

/-- all pairs `(x_i, x_j)` with `i < j`, in `itertools.combinations` order. -/
def pairsOf : List PV → List PV
  | [] => []
  | x :: xs => (xs.map fun y => PV.tup [x, y]) ++ pairsOf xs

def pyCombinations2 (v : PV) : RV :=
  match pyIter v with
  | .error e => .error e
  | .ok l => .ok (.list (pairsOf l))

/-- `numpy.zeros(shape=(n, m), dtype=int)`. -/
def npZeros2 (n m : PV) : RV :=
  match n.asInt?, m.asInt? with
  | some n, some m => if n < 0 ∨ m < 0 then .error .valueError
                      else .ok (.arr (List.replicate n.toNat (.arr (List.replicate m.toNat (.int 0)))))
  | _, _ => .error .typeError

/-! ## NumPy / collections idioms of `remove_nasty_arc` -/

/-- `numpy.max` of a one- or two-dimensional integer array (`ValueError` when empty). -/
def npMax (a : PV) : RV :=
  match flattenInts a with
  | some (x :: xs) => .ok (.int (xs.foldl max x))
  | some [] => .error .valueError
  | Option.none => .error .other

/-- `numpy.unique` of a one-dimensional integer array: sorted, without repetitions. -/
def npUnique (a : PV) : RV :=
  match a with
  | .arr l => match l.mapM PV.asInt? with
              | some ks => .ok (.arr ((ks.foldr insertInt []).map PV.int))
              | Option.none => .error .other
  | _ => .error .other

/-- `numpy.intersect1d(a, b)`: the sorted common values of two one-dimensional integer arrays. -/
def npIntersect1d (a b : PV) : RV :=
  match a, b with
  | .arr x, .arr y =>
    match x.mapM PV.asInt?, y.mapM PV.asInt? with
    | some xs, some ys =>
      .ok (.arr (((xs.foldr insertInt []).filter fun v => ys.contains v).map PV.int))
    | _, _ => .error .other
  | _, _ => .error .other

/-- `numpy.argmax` of a one-dimensional integer array: the first position of the maximum (`ValueError` when empty). -/
def npArgmax (a : PV) : RV :=
  match a with
  | .arr l => match l.mapM PV.asInt? with
              | some (k :: ks) => .ok (.int (((k :: ks).idxOf ((k :: ks).foldl max k) : Nat) : Int))
              | some [] => .error .valueError
              | Option.none => .error .other
  | _ => .error .other

/-- `a.reshape(-1)`: the cells of a one- or two-dimensional array in row-major order. -/
def npFlatten (a : PV) : RV :=
  match a with
  | .arr l => .ok (.arr (l.flatMap fun r => match r with
                                            | .arr cells => cells
                                            | x => [x]))
  | _ => .error .other

/-- `collections.Counter(items)` as a dict: distinct items in order of first occurrence, with their counts. -/
def pyCounter (v : PV) : RV :=
  match pyIter v with
  | .error e => .error e
  | .ok items =>
    let keys := items.foldl (fun ks x => if (findIdxEq x ks 0).isSome then ks else ks ++ [x]) []
    .ok (.dict keys (keys.map fun k => .int ((items.filter fun x => PV.eqb x k).length : Nat)))

/-- `a.T`: the transpose of a two-dimensional array with rows of equal length; a one-dimensional array (also the empty
one that `array([])` is) is its own transpose. -/
def npT (a : PV) : RV :=
  match a with
  | .arr [] => .ok (.arr [])
  | .arr (r :: rs) =>
    match r with
    | .arr cells =>
      let n := cells.length
      .ok (.arr ((List.range n).map fun j => .arr ((r :: rs).map fun row => match row with
                                                                          | .arr cs => cs.getD j .none
                                                                          | x => x)))
    | _ => .ok a
  | _ => .error .other

/-- `a[:, idx]`: for every row of a two-dimensional array the cells at the positions of the index array `idx`. -/
def npIndexCols (a idx : PV) : RV :=
  match a, idx with
  | .arr rows, .arr js =>
    (mapM' (fun row => match row with
                       | .arr _ => (mapM' (fun k => pyIndex row k) js).map PV.arr
                       | _ => .error .indexError) rows).map PV.arr
  | _, _ => .error .other

/-- `⌊log_b n⌋` for `b ≥ 2` (fuel = `n`). -/
def natLogFuel (b : Nat) : Nat → Nat → Nat
  | 0, _ => 0
  | f + 1, n => if n < b then 0 else 1 + natLogFuel b f (n / b)

/-- `int(log(a) / log(b))` for positive ints `a`, `b ≥ 2`: the exact `⌊log_b a⌋`. CPython computes the quotient of two
doubles; for the table sizes `4^k` the code passes the quotient is exactly `k` (validated by the harness for every size
it generates, like `log4` of the hand-written model). -/
def pyIntLogRatio (a b : PV) : RV :=
  match a.asInt?, b.asInt? with
  | some x, some y => if x ≤ 0 ∨ y ≤ 1 then .error .other else .ok (.int (natLogFuel y.toNat x.toNat x.toNat))
  | _, _ => .error .typeError

end Dsw.Py
