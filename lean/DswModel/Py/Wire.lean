import DswModel.Py.Value
/-!
# DswModel.Py.Wire — text form of `PV` values for the line protocol (`gen` operations)

`i<int>` · `s<chars>` · `bT` / `bF` · `n` · `f<num>/<den>` (a float, exactly) · `L[a,b,…]` · `T(a,b,…)` with atoms inside containers.
Strings never contain a space, a comma or a closing bracket on this wire (the harness only sends
such strings).
-/
namespace Dsw.Py

def parseAtom (s : String) : Option PV :=
  match s.toList with
  | 'i' :: cs => (String.ofList cs).toInt?.map PV.int
  | 's' :: cs => some (.str cs)
  | ['b', 'T'] => some (.bool true)
  | ['b', 'F'] => some (.bool false)
  | ['n'] => some .none
  | 'f' :: cs =>      -- a float as the exact fraction `f<num>/<den>` of its value
    match (String.ofList cs).splitOn "/" with
    | [n, d] => match n.toInt?, d.toNat? with
                | some n, some d => if d > 0 then some (.rat n d) else Option.none
                | _, _ => Option.none
    | _ => Option.none
  | _ => Option.none

def parseItems (body : String) : Option (List PV) :=
  if body.isEmpty then some [] else (body.splitOn ",").mapM parseAtom

/-- `A[i1;i2;…]` (1-D) — items separated by `;`. -/
def parseArr1 (body : String) : Option PV :=
  if body.isEmpty then some (.arr []) else ((body.splitOn ";").mapM parseAtom).map PV.arr

/-- `M[r1|r2|…]` (2-D) — rows separated by `|`, items by `;`. -/
def parseArr2 (body : String) : Option PV :=
  if body.isEmpty then some (.arr []) else ((body.splitOn "|").mapM parseArr1).map PV.arr

/-- a list `L[a,b,…]` of atoms, or an atom. -/
def parseFlat (s : String) : Option PV :=
  if s.startsWith "L[" && s.endsWith "]" then
    (parseItems ((s.drop 2).dropEnd 1).toString).map PV.list
  else parseAtom s

/-- one `k:v` entry. -/
def parseEntry (kv : String) : Option (PV × PV) :=
  match kv.splitOn ":" with
  | [k, v] => match parseAtom k, parseFlat v with
              | some k, some v => some (k, v)
              | _, _ => Option.none
  | _ => Option.none

/-- `D{k:v;k:v;…}` — keys are atoms, values atoms or flat lists. -/
def parseDict (body : String) : Option PV :=
  if body.isEmpty then some (.dict [] []) else
  ((body.splitOn ";").mapM parseEntry).map fun (kvs : List (PV × PV)) => PV.dict (kvs.map (·.1)) (kvs.map (·.2))

def parsePV (s : String) : Option PV :=
  if s.startsWith "D{" && s.endsWith "}" then parseDict ((s.drop 2).dropEnd 1).toString
  else if s.startsWith "A[" && s.endsWith "]" then parseArr1 ((s.drop 2).dropEnd 1).toString
  else if s.startsWith "M[" && s.endsWith "]" then parseArr2 ((s.drop 2).dropEnd 1).toString
  else
  if s.startsWith "L[" && s.endsWith "]" then
    (parseItems ((s.drop 2).dropEnd 1).toString).map PV.list
  else if s.startsWith "T(" && s.endsWith ")" then
    (parseItems ((s.drop 2).dropEnd 1).toString).map PV.tup
  else parseAtom s

partial def showPV : PV → String
  | .int i => "i" ++ toString i
  | .str s => "s" ++ String.ofList s
  | .bool true => "bT"
  | .bool false => "bF"
  | .none => "n"
  | .unbound => "UNBOUND"
  | .list l => "L[" ++ ",".intercalate (l.map showPV) ++ "]"
  | .tup l => "T(" ++ ",".intercalate (l.map showPV) ++ ")"
  | .arr l => "A[" ++ ";".intercalate (l.map showPV) ++ "]"
  | .rat n d =>      -- lowest terms, positive denominator (what `float.as_integer_ratio()` gives)
    let g : Int := Int.gcd n d
    if d > 0 ∧ g > 0 then "f" ++ toString (n / g) ++ "/" ++ toString (d / g) else "Q" ++ toString n ++ "/" ++ toString d
  | .set l => "S{" ++ ",".intercalate (l.map showPV) ++ "}"
  | .dict ks vs => "D{" ++ ";".intercalate ((ks.zip vs).map fun kv => showPV kv.1 ++ ":" ++ showPV kv.2) ++ "}"

end Dsw.Py
