import DswModel.Model.Basic
import DswModel.Model.Operation
import DswModel.Model.Graphized
import DswModel.Model.Spiderweb
import DswModel.Model.Biofilter
