import DswModel.Model.Basic
import DswModel.Model.Operation
import DswModel.Model.Graphized
import DswModel.Model.Spiderweb
import DswModel.Model.Biofilter
import DswModel.Model.Capacity
import DswModel.Model.CapacityF
import DswModel.Model.Shuffle
import DswModel.Py.Wire
import DswModel.Gen.Operation
import DswModel.Gen.Graphized
import DswModel.Gen.Spiderweb
import DswModel.Gen.Biofilter
/-!
Line-protocol driver: one operation per input line, one canonical result line per operation.
Imports only `DswModel.Model.*` (core Lean), so it links as a native executable; the definitions
executed here are the ones the theorems in `DswModel.Props.*` are about.  `gen <function> <args…>`
runs the definitions that `harness/py2lean.py` generated from the Python source
(`DswModel.Gen.*`, the ones the theorems in `DswModel.Tie.*` are about).
-/
open Dsw

/-- fuel handed to the generated definitions (every `while` loop of the source gets this many
iterations at most). -/
def genFuel : Nat := 1000000000

def stepGen (name : String) (args : List String) : String :=
  match args.mapM Dsw.Py.parsePV with
  | none => "bad-arg"
  | some vs =>
    match (Dsw.Gen.dispatch_operation genFuel name vs).orElse
        (fun _ => (Dsw.Gen.dispatch_spiderweb genFuel name vs).orElse
          (fun _ => (Dsw.Gen.dispatch_graphized genFuel name vs).orElse
            (fun _ => Dsw.Gen.dispatch_biofilter genFuel name vs))) with
    | none => "bad-op"
    | some (.ok v) => "ok " ++ Dsw.Py.showPV v
    | some (.error e) => "err " ++ (match e with
        | .valueError => "ValueError" | .indexError => "IndexError" | .typeError => "TypeError"
        | .overflowError => "OverflowError" | .other => "Other" | .outOfFuel => "OUT_OF_FUEL")

def errName : PyErr → String
  | .valueError => "ValueError" | .indexError => "IndexError" | .typeError => "TypeError"
  | .overflowError => "OverflowError" | .other => "Other" | .outOfFuel => "OUT_OF_FUEL"

def showR {α} (f : α → String) : R α → String
  | .ok a => "ok " ++ f a
  | .error e => "err " ++ errName e

def dash (s : String) : String := if s.isEmpty then "-" else s
def undash (s : String) : String := if s = "-" then "" else s

def strOf (l : List Char) : String := dash (String.ofList l)
def charsOf (s : String) : List Char := (undash s).toList

def parseNatD (s : String) : Nat := s.toNat?.getD 0
def parseIntD (s : String) : Int := s.toInt?.getD 0

def digitsOf (s : String) : List Nat := (undash s).toList.map fun c => c.toNat - '0'.toNat
def showDigits (l : List Nat) : String := dash (String.join (l.map toString))
def showNats (l : List Nat) : String := dash (",".intercalate (l.map toString))
def showInts (l : List Int) : String := dash (",".intercalate (l.map toString))
def parseNats (s : String) : List Nat := if s = "-" then [] else (s.splitOn ",").map parseNatD

def hexVal (c : Char) : Nat :=
  if c.isDigit then c.toNat - '0'.toNat else c.toNat - 'a'.toNat + 10

/-- `d<k>:<4^k hex nibbles>` (live columns of a de Bruijn sub-table) or
`g:<r0c0>,<r0c1>,…` (arbitrary four-column table). -/
def parseAcc (s : String) : Acc :=
  if s.startsWith "d" then
    match (s.drop 1).toString.splitOn ":" with
    | [ks, nib] =>
      let k := parseNatD ks
      let n := 4 ^ k
      (nib.toList.zipIdx.map fun (c, v) =>
        let bits := hexVal c
        ((List.range 4).map fun j =>
          if (bits / 2 ^ j) % 2 = 1 then Int.ofNat ((v * 4 + j) % n) else (-1 : Int)).toArray).toArray
    | _ => #[]
  else
    let xs := ((s.drop 2).toString.splitOn ",").map parseIntD
    let rec rows : Nat → List Int → List (Array Int)
      | 0, _ => []
      | _, [] => []
      | f + 1, l => (l.take 4).toArray :: rows f (l.drop 4)
    (rows xs.length xs).toArray

def showAcc (a : Acc) : String :=
  dash (";".intercalate (a.toList.map fun r => ",".intercalate (r.toList.map toString)))

/-- `-` or 4 digits per row. -/
def parseTbl (s : String) : Option Tbl :=
  if s = "-" then none else
  let ds := s.toList.map fun c => Int.ofNat (c.toNat - '0'.toNat)
  let rec rows : Nat → List Int → List (Array Int)
    | 0, _ => []
    | _, [] => []
    | f + 1, l => (l.take 4).toArray :: rows f (l.drop 4)
  some (rows ds.length ds).toArray

def parseMask (s : String) : Mask := ((undash s).toList.map (· == '1')).toArray
def parseBool (s : String) : Bool := s = "1"
def showBool (b : Bool) : String := if b then "1" else "0"
def parseOptChars (s : String) : Option (List Char) := if s = "None" then none else some (charsOf s)

/-- `v:a,b;v:a,b` or `-`. An entry with no successors is written `v:`. -/
def parseLMap (s : String) : LMap :=
  if s = "-" then [] else
  (s.splitOn ";").map fun e =>
    match e.splitOn ":" with
    | [v, ls] => (parseNatD v, if ls.isEmpty then [] else (ls.splitOn ",").map parseNatD)
    | _ => (0, [])

def showLMap (m : LMap) : String :=
  dash (";".intercalate (m.map fun p => toString p.1 ++ ":" ++ ",".intercalate (p.2.map toString)))

def showMatrix (m : Array (Array Nat)) : String :=
  dash (";".intercalate (m.toList.map fun r => String.join (r.toList.map toString)))

def parseMatrix (s : String) : Matrix :=
  if s = "-" then #[] else
  ((s.splitOn ";").map fun r => (r.toList.map fun c => c.toNat - '0'.toNat).toArray).toArray

def showScores (m : Array (Array Nat)) : String :=
  dash (";".intercalate (m.toList.map fun r => ",".intercalate (r.toList.map toString)))

def kindName : EditKind → String | .S => "S" | .I => "I" | .D => "D"

def parseCfg (k run motifs gc : String) : FilterCfg :=
  { k := parseNatD k
    run := if run = "-" then none else some (parseNatD run)
    motifs := if motifs = "-" then none
              else some ((motifs.splitOn ",").map fun m => charsOf m)
    gc := if gc = "-" then none else
      -- the two bounds as the exact fractions of the doubles the real filter is given: `ln/ld,hn/hd`
      match (gc.splitOn ",").map fun t => (t.splitOn "/").map parseIntD with
      | [[ln, ld], [hn, hd]] => floatGcRule ⟨ln, ld.toNat⟩ ⟨hn, hd.toNat⟩ (parseNatD k)
      | _ => none }

def parseRat (s : String) : Rat :=
  match s.splitOn "/" with
  | [n, d] => (parseIntD n : Rat) / (parseNatD d : Rat)
  | [n] => (parseIntD n : Rat)
  | _ => 0

/-- `⌊x · 10^18⌋` as a decimal string (for comparison with floats). -/
def showScaled (x : Rat) : String := toString ((x * (10 ^ 18 : Nat)).floor)

def step (line : String) : String :=
  match line.trimAscii.toString.splitOn " " with
  | "gen" :: name :: args => stepGen name args
  | ["fop", op, a, b] =>
    -- a float primitive of the Python fragment on two wire values (validates `Model/Float.lean` against CPython)
    (match Dsw.Py.parsePV a, Dsw.Py.parsePV b with
     | some x, some y =>
       let r : Option Dsw.Py.RV := match op with
         | "mul" => some (Dsw.Py.pyMul x y) | "sub" => some (Dsw.Py.pySub x y) | "add" => some (Dsw.Py.pyAdd x y)
         | "lt" => some ((Dsw.Py.pyLt x y).map Dsw.Py.PV.bool) | "le" => some ((Dsw.Py.pyLe x y).map Dsw.Py.PV.bool)
         | "eq" => some ((Dsw.Py.pyEq x y).map Dsw.Py.PV.bool)
         | "int" => some (Dsw.Py.pyInt x)
         | _ => none
       match r with
       | some (.ok v) => "ok " ++ Dsw.Py.showPV v
       | some (.error e) => "err " ++ errName e
       | none => "bad-op"
     | _, _ => "bad-arg")
  | ["add", s, b] => showDigits (calculusAddition (digitsOf s) (parseNatD b))
  | ["sub", s, b] => showDigits (calculusSubtraction (digitsOf s) (parseNatD b))
  | ["mul", s, b] => showDigits (calculusMultiplication (digitsOf s) (parseNatD b))
  | ["div", s, b] =>
    let r := calculusDivision (digitsOf s) (parseNatD b)
    showDigits r.1 ++ " " ++ showDigits r.2
  | ["b2n", bits] =>
    showDigits (bitToNumberStr (digitsOf bits)) ++ " " ++ toString (bitToNumberInt (digitsOf bits))
  | ["n2b", n, l] =>
    showR showDigits (numberToBitStr (digitsOf n) (parseNatD l)) ++ " | " ++
      showDigits (numberToBitInt (parseNatD n) (parseNatD l))
  | ["d2n", s] =>
    showR showDigits (dnaToNumberStr (charsOf s)) ++ " | " ++ showR toString (dnaToNumberInt (charsOf s))
  | ["n2d", n, l] =>
    showR strOf (numberToDnaStr (digitsOf n) (parseNatD l)) ++ " | " ++
      strOf (numberToDnaInt (parseNatD n) (parseNatD l))
  | ["latters", k, v] => showNats (obtainLatters (parseNatD k) (parseNatD v))
  | ["formers", k, v] => showNats (obtainFormers (parseNatD k) (parseNatD v))
  | ["complete", k] => showAcc (getCompleteAccessor (parseNatD k))
  | ["a2m", a] => showR showMatrix (accessorToAdjacencyMatrix (parseAcc a))
  | ["m2a", m] => showR showAcc (adjacencyMatrixToAccessor (parseMatrix m))
  | ["a2l", a] => showLMap (accessorToLatterMap (parseAcc a))
  | ["l2a", m, k, t] =>
    showR showAcc (latterMapToAccessor (parseLMap m) (parseNatD k)
      (if t = "-" then none else some (parseNatD t)))
  | ["rmu", m, t] => showR showLMap (removeUseless (parseLMap m) (parseNatD t))
  | ["verts", a] => showNats (obtainVertices (parseAcc a))
  | ["leafa", a, v, d] => showNats (leafAcc (parseAcc a) (parseNatD d) [parseNatD v])
  | ["leafl", m, v, d] => showNats (leafMap (parseLMap m) (parseNatD d) [parseNatD v])
  | ["pm", a, chunk, prev, occ, indel] =>
    showR (fun r => dash (";".intercalate (r.1.map fun i =>
        kindName i.kind ++ "," ++ toString i.loc ++ "," ++ String.singleton i.nuc ++ "," ++ strOf i.fragment))
        ++ " " ++ toString r.2)
      (pathMatching (parseAcc a) (charsOf chunk) (parseIntD prev) (parseNatD occ) (parseBool indel))
  | ["cis", m, k, ins, del] =>
    showScores (calculateIntersectionScore (parseLMap m) (parseNatD k) (parseBool ins) (parseBool del))
  | ["enc", a, tbl, start, bits, fast, vtlen] =>
    let acc := parseAcc a
    let bs := digitsOf bits
    let fastb := parseBool fast
    showR (fun r => strOf r.1 ++ " " ++ (match r.2 with | none => "None" | some c => strOf c) ++ " " ++
        dash (";".intercalate ((recordPath acc fastb (parseIntD start) r.1).map fun p =>
          toString p.1 ++ "," ++ toString p.2)))
      (encode acc (parseTbl tbl) (parseIntD start) bs fastb (parseNatD vtlen) (encodeFuel acc bs))
  | ["dec", a, tbl, start, s, l, fast, chk] =>
    showR showDigits (decode (parseAcc a) (parseTbl tbl) (parseIntD start) (charsOf s) (parseNatD l)
      (parseBool fast) (parseOptChars chk))
  | ["vt", s, n] => showR strOf (setVt (charsOf s) (parseNatD n))
  | ["rep", a, s, start, k, chk, indel, heap] =>
    showR (fun r => dash (",".intercalate (r.1.map strOf)) ++ " " ++ toString r.2.detected ++ " " ++
        showBool r.2.flag ++ " " ++ toString r.2.count ++ " " ++ toString r.2.visited)
      (repairDna (parseAcc a) (charsOf s) (parseIntD start) (parseNatD k) (parseOptChars chk)
        (parseBool indel) (parseNatD heap))
  | ["fv", k, table] =>
    let t := parseMask table
    showR (fun m => String.join (m.toList.map showBool))
      (findVertices (parseNatD k) fun kmer =>
        t.getD ((kmer.foldl (fun n c => n * 4 + (nucIdx c).getD 0) 0)) false)
  | ["cvg", k, m] =>
    showR showAcc (connectValidGraph (parseNatD k) (if m = "None" then none else some (parseMask m)))
  | ["ccg", k, m, t] =>
    showR (fun r => showNats r.1 ++ " " ++ showAcc r.2)
      (connectCodingGraph (parseNatD k) (parseMask m) (parseNatD t))
  | ["rna", a, m, ins, del] =>
    showR (fun r => showAcc r.acc ++ " " ++ showLMap r.lmap ++ " " ++ toString r.former ++ "," ++
        toString r.latter ++ " " ++ showNats r.scores)
      (removeNastyArc (parseAcc a) (parseLMap m) (parseBool ins) (parseBool del))
  | ["flt", k, run, motifs, gc, s, onlyLast] =>
    let c := parseCfg k run motifs gc
    if c.accepted then "1 " ++ showBool (c.valid (charsOf s) (parseBool onlyLast)) else "0 -"
  | ["cap", a, tolExp, maxIter, vecs, _seed] =>
    let starts := (vecs.splitOn ";").map fun v => ((v.splitOn ",").map parseRat).toArray
    match approximateCapacity (parseAcc a) (1 / (10 ^ parseNatD tolExp : Nat)) (parseNatD maxIter) starts with
    | none => "err OUT_OF_FUEL"
    | some (res, recs) =>
      "ok " ++ ",".intercalate (res.map showScaled) ++ " " ++
        ";".intercalate (recs.map fun r => ",".intercalate (r.map showScaled))
  | ["capf", a, tol, maxIter, vecs, _seed] =>
    -- approximate_capacity in double precision: every number is the exact fraction `n/d` of a double
    let parseD (s : String) : Dbl := match s.splitOn "/" with
      | [n, d] => ⟨parseIntD n, parseNatD d⟩
      | _ => ⟨parseIntD s, 1⟩
    let showD (x : Dbl) : String :=
      let g : Int := Int.gcd x.num x.den
      if g > 0 then toString (x.num / g) ++ "/" ++ toString ((x.den : Int) / g) else "0/1"
    let starts := (vecs.splitOn ";").map fun v => ((v.splitOn ",").map parseD).toArray
    match approximateCapacityF (parseAcc a) (parseD tol) (parseNatD maxIter) starts with
    | none => "err OUT_OF_FUEL"
    | some (res, recs) =>
      "ok " ++ ",".intercalate (res.map showD) ++ " " ++
        ";".intercalate (recs.map fun r => ",".intercalate (r.map showD))
  | ["capr", a, tol, maxIter, repeats, seed] =>
    -- the randomised call entirely inside the model: seed -> MT19937 -> start vectors -> double-precision iteration
    let parseD (s : String) : Dbl := match s.splitOn "/" with
      | [n, d] => ⟨parseIntD n, parseNatD d⟩
      | _ => ⟨parseIntD s, 1⟩
    let showD (x : Dbl) : String :=
      let g : Int := Int.gcd x.num x.den
      if g > 0 then toString (x.num / g) ++ "/" ++ toString ((x.den : Int) / g) else "0/1"
    (match approximateCapacitySeeded (parseAcc a) (parseD tol) (parseNatD maxIter) (parseNatD repeats) (parseNatD seed) with
     | .error e => "err " ++ errName e
     | .ok none => "err OUT_OF_FUEL"
     | .ok (some (res, recs)) =>
       "ok " ++ ",".intercalate (res.map showD) ++ " " ++
         ";".intercalate (recs.map fun r => ",".intercalate (r.map showD)))
  | ["shuf", k, seed] =>
    showR (fun t => String.join (t.map fun r => String.join (r.map toString)))
      (createRandomShufflesSeeded (parseNatD k) (parseNatD seed))
  | _ => "bad-op"

partial def loop (h : IO.FS.Stream) (out : IO.FS.Stream) : IO Unit := do
  let line ← h.getLine
  if line.isEmpty then return ()
  out.putStrLn (step line)
  loop h out

def main : IO Unit := do
  let out ← IO.getStdout
  loop (← IO.getStdin) out
