#!/bin/bash
# Re-run every kept seeded change against the quick check of the property it breaks, in scratch worktrees of /repo
# (never in /repo itself), four at a time.  Usage: tools/regress_seeded.sh [id-prefix]
# prints one line per change: "<id> caught by <prop> [no-failing-input-found]" or "<id> MISSED by <prop>: …"
V="$(cd "$(dirname "$0")/.." && pwd)"
pre="${1:-}"
run_one() {
  d="$1"; id=$(basename "$d")
  prop=$(python3 -c "import json;print(json.load(open('$d/meta.json'))['breaks_property'])")
  wt=$(mktemp -d /tmp/regress_wt.XXXXXX); rmdir "$wt"
  git -C /repo worktree add -q --detach "$wt" HEAD 2>/dev/null || { echo "$id ERROR worktree"; return; }
  if git -C "$wt" apply "$d/patch.diff" 2>/dev/null; then
    out=$(cd "$V" && DSW_REPO="$wt" VERIF_SEED=${VERIF_SEED:-0} ./check "$prop" --tier quick 2>&1); rc=$?
    if [ $rc = 1 ]; then
      nf=""; echo "$out" | grep VIOLATION | grep -vq no-failing-input-found || nf=" no-failing-input-found"
      echo "$id caught by $prop$nf"
    else
      echo "$id MISSED by $prop: exit=$rc $(echo "$out" | tail -1)"
    fi
  else
    echo "$id ERROR patch does not apply"
  fi
  git -C /repo worktree remove --force "$wt" 2>/dev/null
}
export -f run_one; export V
ls -d "$V"/seeded/${pre}*/ | xargs -P 4 -I{} bash -c 'run_one {}' | sort
