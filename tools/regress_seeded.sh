#!/bin/bash
# Re-run every kept seeded change against the quick check of the property it breaks.
# Usage: tools/regress_seeded.sh [id-prefix]      (prints one line per change; MISSED if the check stays quiet)
cd /verif || exit 2
for d in seeded/${1:-}*/; do
  id=$(basename "$d")
  prop=$(python3 -c "import json;print(json.load(open('$d/meta.json'))['breaks_property'])")
  out=$(tools/try_mutant.sh "/verif/$d" "$prop" 2>&1)
  if echo "$out" | grep -q "exit=1"; then echo "$id caught by $prop"; else echo "$id MISSED by $prop: $(echo "$out" | tail -1)"; fi
done
