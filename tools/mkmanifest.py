#!/usr/bin/env python3
"""Generate /verif/MANIFEST.json from harness/registry.py (single source of truth)."""
import json
import os
import sys

VERIF = os.path.dirname(os.path.dirname(os.path.abspath(__file__)))
sys.path.insert(0, os.path.join(VERIF, "harness"))
import registry  # noqa: E402

TEXT = {
    "C01": "Round trip decode(encode(m)) = m proved in Lean for every graph, start vertex, table, fuel, message, check length and both modes (no hypothesis on the graph); totality of encode on well-formed graphs with the explicit fuel L*|V|+1 (pigeonhole on forced paths). Tie to /repo: differential correspondence of encode/decode/set_vt against the native driver compiled from the same definitions, plus a direct round-trip sweep.",
    "C02": "Window safety of every walk on a graph induced by a filter mask (synchronisation lemma + arcs only lead to marked vertices) and whole-sequence validity for window-decidable LocalBioFilter configurations (C12 window-conjunction + monotonicity for short strands) proved in Lean; constructor sentence: partial theorem + proved counter-example = known finding K1. The GC thresholds are the ones the code's double-precision expressions produce (floatGcRule on Model/Float.lean, a rounding model PROVED to be IEEE-754 round-to-nearest-even in Props/FloatSpec.lean); their mutual consistency, which defect D8 violated, is a theorem for all doubles in [0,1] and windows up to 2^53 (C02_float_consistent); the whole write path filter -> graph -> strand is restated on the GENERATED code incl. the built-in filter (gen_E2E_biofilter_windows/whole).",
    "C03": "For every mask and threshold 1..4 (C03_holds): the result is the largest closed subset (for t = 1: closed1 = at least one retained successor and a branching vertex in reach), the accessor is the induced table, the vertex list is exactly the vertices with arcs, ValueError iff that subset is empty; all fuel-bounded loops of the model (trimming rounds, backward closure, predecessor cascade) provably terminate within their fuel; monotone in the mask; latter-map trimming gives the same graph for t >= 2 (C03_latter_map) and remove_useless is the greatest closed sub-map for ANY latter map (C03_remove_useless). Tie: correspondence of connect_coding_graph / remove_useless / latter_map_to_accessor + independent gfp oracle.",
    "C04": "Termination within L*|V|+1 steps, walk-ness and tightness of the strand on generated graphs, proved from C03's characterisation (GoodFrom) and the Nat-level encoder lemmas; implementation observed through a read-counting accessor proxy with the theorem's budget.",
    "C05": "The emitted strand meets the declarative specification IsEncoding (mixed-radix value with documented arc rank, minimality), the specification determines the strand uniquely, decoding any walk gives its value big-endian; fast mode: carried bits = message (+ one padding 0). Proved for all inputs.",
    "C06": "decode returns exactly L bits iff the string is a walk and the check matches, otherwise ValueError and nothing else (normal mode: any graph; fast mode: under the stated bound), for strings over any alphabet. Proved for all inputs.",
    "C07": "Shape of the check (length, flag symbol, base-4 digits of the ascent-position sum), every single substitution / C,G,T indel changes the first symbol, decode with the original check rejects. Proved for all strands, positions and check lengths.",
    "C08": "C08_single (all three edit kinds, with and without the original's check), C08_single_subst (indel handling off) and C08_multi (edit sets with spacing >= 3k+2: detected <= #edits and, when equal, the original is a candidate) are proved for every vertex-induced graph, walk and position; E2E_single_edit states 'detected exactly when no longer a walk'; path_matching is specified soundly and completely (C08b). Tie: correspondence of repair_dna / path_matching and a direct sweep over all single interior edits and spaced multi-edit sets.",
    "C09": "Clean strands returned alone with zero detections on both return paths; candidate list strictly increasing; every candidate reproduces the supplied check — proved for every input.",
    "C10": "repair_dna returns a value for every table/start/ACGT strand of length >= k and every option: the scan needs at most |s|+1 steps (both branches advance), no look-back indexes outside its chunk, look-ups bounded by |s| + 18k(|s|+k). Implementation observed under a look-up budget.",
    "C11": "Mask = filter verdict on the i-th k-mer, ValueError iff none; valid graph = induced shift sub-graph with the arc in the column of the successor's last nucleotide, ValueError for the empty mask. The filter call convention is observed by the harness with documented-interface filters.",
    "C12": "valid() equals the documented predicate (alphabet, run, motif/reverse complement, windowed GC, short-string rule), last-window = verdict of the final window, window conjunction for window-decidable configurations, reverse-complement invariance — proved on the integer-threshold model; the thresholds are DERIVED by the model from the caller's doubles with an exact model of binary64 rounding (Model/Float.lean) that is proved against the IEEE-754 specification (Props/FloatSpec.lean); dsw/biofilter.py is translated on every run and tied (tie_LocalBioFilter_*), C12 is restated on the generated code (gen_C12_*).",
    "C13": "Index <-> k-mer bijection, successor/predecessor lists as shift-append/prepend, predecessor iff successor, complete accessor, and the de Bruijn sub-table invariant for every constructor/converter — proved for every k and every vertex.",
    "C14": "Round trips accessor<->latter map and accessor<->matrix are the identity on every arc subset; content of map/matrix/vertex list; leaf queries agree and equal the d-step walk end points; illegal matrices rejected — proved for every k.",
    "C15": "add/mul/div/sub on canonical decimal strings return canonical strings with the exact value (carry/borrow chains of every length), special cases, canonical strings determined by value — proved by induction on the digit list.",
    "C16": "bits/DNA -> number -> bits/DNA identity at every length, string path = integer path, fixed-width rendering inverse and padding, fuel of the string loops never exhausted — proved.",
    "C17": "Proved on the exact-rational model of the power iteration: estimates in (0,4] (capacity <= 2), 0 for an arc-less graph, exactly d on d-regular graphs in single-start mode, soundness of the Collatz-Wielandt certificate (integer and rational), and what the code's own stopping rule certifies (C17_stop_accuracy: relative error <= tol/delta of the walk growth rate). The same clauses are proved for the DOUBLE-PRECISION computation the code performs (Model/CapacityF.lean, operation by operation, compared with the NumPy run bit for bit on every iteration, also with the start vectors drawn by the modelled MT19937): C17F_le_four, C17F_arcless, C17F_regular, C17F_total, and C17F_stop_certificate / C17F_stop_accuracy (what the rounded stopping rule certifies: relative error <= (tol+2^-500)/delta + 2^-50 of the walk growth rate). NOT a theorem: that the rule fires within the iteration budget with delta large enough for 1e-4 (convergence RATE under the spectral-gap precondition) - tested against the certified Collatz-Wielandt enclosure; numpy.log2 and numpy.median are external.",
    "C18": "For ANY table digit->arc is a bijection onto the live arcs with the decoder's map as inverse (argsort is a permutation), with permutation rows the digit is the documented rank, table shape given a permutation-returning shuffle; decode's acceptance is table independent (C06). NumPy's MT19937 seeding and legacy shuffle are modelled in Lean (Model/Shuffle.lean): in the model the table is a pure function of (k, seed), every row is a permutation for ANY generator stream, seeds >= 2^32 are ValueError; the model's tables are compared entry by entry with NumPy's on every run. That the call touches nothing but NumPy's global generator is observed, not proved.",
    "C19": "Scores have the accessor's shape and are positive only on arcs; every returning call removes exactly one existing arc of maximum score, changes nothing else, keeps accessor and latter map consistent; by induction over any call sequence. remove_nasty_arc and calculate_intersection_score are translated on every run and tied (tie_remove_nasty_arc, tie_calculate_intersection_score); C19 is restated on the generated code (gen_C19_step, gen_C19_history).",
    "C20": "The Lean model is the stateless specification (every operation a pure function). Decided by translation validation of histories: random interleavings on shared argument objects, bit-for-bit argument snapshots, verbose on/off, results compared with isolated calls and with the model.",
}
TECH = "Lean 4 theorems about a hand-written model + differential correspondence (real Python vs native driver compiled from the model) + direct oracle sweep"
TECH_TIE = ("Lean 4 theorems about a hand-written model; TWO ties to the source, both checked on every run: (1) translation - "
            "harness/py2lean.py regenerates Lean definitions from the Python source and kernel-checked theorems (DswModel.Tie.*) prove "
            "that they compute the model, so the property is also a theorem about the generated code; (2) differential correspondence "
            "(real Python vs native driver compiled from the model) + direct oracle sweep")


def tie_text(spec):
    """sentence appended to the level text of a property whose code is (partly) translated."""
    import tie
    if not spec.get("tie"):
        return ""
    fns = []
    for t in (spec["tie"] if isinstance(spec["tie"], list) else [spec["tie"]]):
        name, only = (t, None) if isinstance(t, str) else t
        fns += ["%s.%s" % (name, f) for f in sorted(tie.TIES[name]["theorems"]) if only is None or f in only]
    cor = sorted({t.split(":Dsw.Tie.")[1] for t in spec["theorems"] if ":Dsw.Tie.gen_" in t})
    return (" Translation tie: the Lean definitions of %s are REGENERATED from the Python source on every run "
            "(harness/py2lean.py) and kernel-checked theorems prove that they compute the model on the functions' contracts%s; "
            "when the source changes the tie theorems are re-checked against the new translation in a scratch build and the "
            "outcome is recorded in the evidence (a broken translation tie alone is not a verdict, DESIGN.md §11)."
            % (", ".join(fns), ("; the property is restated about the generated code (%s)" % ", ".join(cor)) if cor else ""))

checks = []
for pid in sorted(registry.PROPS):
    spec = registry.PROPS[pid]
    checks.append({
        "property_id": pid,
        "quick_cmd": "./check %s --tier quick" % pid,
        "thorough_cmd": "./check %s --tier thorough" % pid,
        "evidence_file": "evidence/%s.json" % pid,
        "replay_cmd_template": "./check %s --replay {path}" % pid,
        "engine": "lean-model+correspondence",
        "level_claimed": {"category": spec["level"], "text": TEXT[pid] + tie_text(spec),
                          "design_ref": "DESIGN.md §4 " + pid + (", §11" if spec.get("tie") else "")},
        "level_note": "Trusted: Lean kernel; axioms propext/Classical.choice/Quot.sound; the correspondence harness "
                      "(sampled tie model<->code); NumPy/CPython primitives modelled not verified. "
                      + ("Translation tie: the translator py2lean.py and the hand-written semantics of the Python/NumPy fragment "
                         "(lean/DswModel/Py/Value.lean) are trusted and validated against CPython on every run (gen operations). "
                         if spec.get("tie") else "")
                      + " ".join(spec.get("trusted", []) + spec.get("assumptions", [])),
        "technique": (TECH_TIE if spec.get("tie") else TECH) if spec["level"] == "proof" else "translation validation of call histories against the stateless Lean model + argument snapshots",
    })

manifest = {
    "version": 1,
    "setup_cmd": "cd lean && lake build dswdriver DswModel",
    "hooks": {
        "guard": "DNASPIDERWEB_VERIF",
        "enable": "no source hooks are needed: the checks import dsw from /repo's working tree in-process (DSW_REPO, default /repo) and observe look-ups through an ndarray proxy",
        "baseline_off_cmd": "cd /repo && /venv/bin/python -m pytest -ra -q -p no:cacheprovider --timeout=900 --continue-on-collection-errors tests",
        "source_commits": [],
        "add_only": True,
    },
    "engines": [{
        "name": "lean-model+correspondence", "path": "lean/ harness/ check",
        "serves_properties": sorted(registry.PROPS),
        "kind_free_text": "Lean 4 library DswModel (model of every dsw function + property theorems; Python->Lean translator, "
                          "generated definitions and tie theorems for operation.py and the translatable parts of graphized.py / "
                          "spiderweb.py), native line-protocol driver, Python harness running the real functions on the same "
                          "lines, per-property oracles",
    }],
    "checks": checks,
    "notes": "Genuine defects repaired in /repo as fix: commits and the known finding K1 are listed in known_findings.json. "
             "VERIF_SEED selects the seed, VERIF_JOBS the number of worker processes.",
    "not_applicable": [],
}
json.dump(manifest, open(os.path.join(VERIF, "MANIFEST.json"), "w"), indent=1)
print("MANIFEST.json written:", len(checks), "checks")
