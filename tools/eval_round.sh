#!/bin/bash
# tools/eval_round.sh <base dir with Cxx/out/m{1,2}/{patch.diff,demo.py}> [ids...]
# For every fresh seeded change: (1) confirm it in a scratch worktree (tests pass with it, demo fails with / passes
# without it), (2) run the quick check of its property against the scratch worktree (never /repo). One line each.
V="$(cd "$(dirname "$0")/.." && pwd)"
base="$1"; shift
ids="$*"; [ -z "$ids" ] && ids=$(ls "$base" | grep '^C[0-9][0-9]$')
run_one() {
  p="$1"; m="$2"; d="$base/$p/out/$m"
  [ -f "$d/patch.diff" ] || return
  wt=$(mktemp -d /tmp/evr_wt.XXXXXX); rmdir "$wt"
  git -C /repo worktree add -q --detach "$wt" HEAD 2>/dev/null || { echo "$p/$m ERROR worktree"; return; }
  ( cd "$wt" && /venv/bin/python "$d/demo.py" > /dev/null 2>&1 ); c=$?
  if ! git -C "$wt" apply "$d/patch.diff" 2>/dev/null; then echo "$p/$m ERROR patch does not apply"; git -C /repo worktree remove --force "$wt"; return; fi
  ( cd "$wt" && /venv/bin/python "$d/demo.py" > /dev/null 2>&1 ); mm=$?
  t=$(cd "$wt" && /venv/bin/python -m pytest -q -p no:cacheprovider --timeout=900 tests 2>&1 | tail -1)
  out=$(cd "$V" && DSW_REPO="$wt" VERIF_SEED=${VERIF_SEED:-0} ./check "$p" --tier quick 2>&1); rc=$?
  nf=""; echo "$out" | grep VIOLATION | grep -q no-failing-input-found && nf=" (some: no-failing-input-found)"
  echo "$p/$m demo clean=$c mutated=$mm tests=[$t] check exit=$rc$nf :: $(echo "$out" | grep -E 'VIOLATION|INFRA' | head -2 | tr '\n' ' ')"
  git -C /repo worktree remove --force "$wt" 2>/dev/null
}
export -f run_one; export V base
for p in $ids; do for m in m1 m2; do echo "$p $m"; done; done | xargs -P 5 -L 1 bash -c 'run_one $0 $1' | sort
