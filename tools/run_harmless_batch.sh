#!/bin/bash
# tools/run_harmless_batch.sh <dir with Cxx/out/h{1,2}/patch.diff and Cxx/wt worktrees> [ids...]
# runs every behaviour-preserving change found there through tools/try_harmless.sh, two worktrees at a time;
# one line per change on stdout.
V="$(cd "$(dirname "$0")/.." && pwd)"
base="$1"; shift
ids="$*"; [ -z "$ids" ] && ids=$(ls "$base" | grep '^C[0-9][0-9]$')
run_one() {
  p="$1"
  for h in h1 h2; do
    if [ -f "$base/$p/out/$h/patch.diff" ]; then
      r=$("$V/tools/try_harmless.sh" "$base/$p/wt" "$base/$p/out/$h" 2>&1 | tr '\n' ' ')
      echo "$p/$h: $r"
    fi
  done
}
export -f run_one; export V base
echo $ids | tr ' ' '\n' | xargs -P 2 -I{} bash -c 'run_one {}'
