#!/usr/bin/env python3
"""Union of the implementation line coverage reported in evidence/*.json: which executable lines of
which dsw functions NO check has executed (generator blind spots)."""
import glob, json
tot, never = {}, {}
for f in sorted(glob.glob("/verif/evidence/*.json")):
    cov = json.load(open(f))["coverage"].get("implementation_line_coverage", {})
    for fn, (got, total, missing) in cov.items():
        tot[fn] = total
        never[fn] = set(missing) if fn not in never else never[fn] & set(missing)
for fn in sorted(tot):
    print("%-45s %3d/%3d  never executed by any check: %s" % (fn, tot[fn] - len(never[fn]), tot[fn], sorted(never[fn]) or "-"))
