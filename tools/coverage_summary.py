#!/usr/bin/env python3
"""Union of the implementation line coverage reported in evidence/*.json: which executable lines of
which dsw functions no check has executed (generator blind spots)."""
import glob, json
best = {}
for f in sorted(glob.glob("/verif/evidence/*.json")):
    cov = json.load(open(f))["coverage"].get("implementation_line_coverage", {})
    for fn, (got, tot, missing) in cov.items():
        cur = best.get(fn)
        if cur is None or got > cur[0]:
            best[fn] = (got, tot, missing, f.split("/")[-1][:3])
for fn, (got, tot, missing, who) in sorted(best.items()):
    print("%-45s %3d/%3d  best by %s  never executed there: %s" % (fn, got, tot, who, missing if got < tot else "-"))
