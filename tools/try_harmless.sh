#!/bin/bash
# tools/try_harmless.sh <scratch worktree of /repo> <dir with patch.diff> [property ids...]
# Applies a behaviour-preserving change in the scratch worktree (never in /repo), runs the quick checks against it
# through DSW_REPO, and prints every check that raises an alarm. (Evidence files written by these runs describe the
# scratch tree: re-run the checks on /repo before committing evidence.)
V="$(cd "$(dirname "$0")/.." && pwd)"
wt="$1"; d="$2"; shift 2
ids="$*"; [ -z "$ids" ] && ids="C01 C02 C03 C04 C05 C06 C07 C08 C09 C10 C11 C12 C13 C14 C15 C16 C17 C18 C19 C20"
cd "$wt" || exit 2
git checkout -q -- . || exit 2
git apply "$d/patch.diff" || { echo "patch does not apply"; exit 2; }
trap 'git -C '"$wt"' checkout -q -- .' EXIT
log=$(mktemp -d)
echo $ids | tr ' ' '\n' | xargs -P 4 -I{} sh -c "cd $V && DSW_REPO=$wt VERIF_SEED=\${VERIF_SEED:-0} ./check {} --tier quick > $log/{}.out 2>&1; echo \$? > $log/{}.rc"
bad=0
for id in $ids; do
  rc=$(cat $log/$id.rc)
  if [ "$rc" != "0" ]; then bad=1; echo "ALARM $id exit=$rc: $(grep -E 'VIOLATION|INFRA|Error|error' $log/$id.out | head -3 | tr '\n' ' ')"; fi
done
[ $bad = 0 ] && echo "quiet: all of [$ids] exit 0"
rm -rf $log
