#!/bin/bash
# tools/try_mutant.sh <dir with patch.diff [demo.py]> <property id> [more ids...]
# Applies the patch to /repo, runs the quick checks, undoes the patch straight afterwards.
d="$1"; shift
cd /repo || exit 2
if ! git diff --quiet; then echo "/repo not clean"; exit 2; fi
git apply "$d/patch.diff" || { echo "patch does not apply"; exit 2; }
trap 'git -C /repo checkout -- . ' EXIT
for id in "$@"; do
  out=$(cd /verif && VERIF_SEED=${VERIF_SEED:-0} ./check "$id" --tier ${TIER:-quick} 2>&1); rc=$?
  echo "== $id exit=$rc"; echo "$out" | grep -E "VIOLATION|KNOWN|INFRA|tier=" | head -8
done
