#!/bin/bash
# tools/verify_mutant.sh <dir with patch.diff demo.py>: confirm in a scratch worktree that the baseline tests
# pass with the change, and that demo.py fails with it and passes without it.
d="$1"
wt=/tmp/mutv_$$
git -C /repo worktree add -q --detach "$wt" HEAD || exit 2
trap 'git -C /repo worktree remove --force '"$wt" EXIT
cd "$wt" || exit 2
/venv/bin/python "$d/demo.py" > /tmp/mutv_$$.clean 2>&1; c=$?
git apply "$d/patch.diff" || { echo "patch does not apply"; exit 2; }
/venv/bin/python "$d/demo.py" > /tmp/mutv_$$.mut 2>&1; m=$?
t=$(/venv/bin/python -m pytest -q -p no:cacheprovider --timeout=900 tests 2>&1 | tail -1)
echo "demo clean exit=$c  mutated exit=$m  tests: $t"
grep -h "dsw" /tmp/mutv_$$.mut | head -2
rm -f /tmp/mutv_$$.clean /tmp/mutv_$$.mut
