#!/usr/bin/env python3
"""tools/keep_mutant.py <src dir> <seeded id> <property> <detected_by comma list> <first_missed yes/no> "<needs>"
copies patch.diff / demo.py / notes.txt to /verif/seeded/<id>/ and writes meta.json."""
import json, os, shutil, sys
src, sid, prop, detected, missed, needs = sys.argv[1:7]
dst = os.path.join("/verif/seeded", sid)
os.makedirs(dst, exist_ok=True)
for f in ("patch.diff", "demo.py", "notes.txt"):
    if os.path.exists(os.path.join(src, f)):
        shutil.copy(os.path.join(src, f), os.path.join(dst, f))
notes = open(os.path.join(src, "notes.txt")).read() if os.path.exists(os.path.join(src, "notes.txt")) else ""
json.dump({
    "id": sid, "breaks_property": prop, "needs_to_manifest": needs, "author_notes": notes,
    "confirmed": {
        "how": "tools/verify_mutant.sh (scratch worktree of /repo HEAD under /tmp, removed afterwards): demo.py exits 0 on the "
               "pristine tree and 1 with patch.diff applied; the 30 baseline tests pass with the patch applied",
        "checks_run": "tools/try_mutant.sh: git -C /repo apply patch.diff; ./check <id> --tier quick (VERIF_SEED=0); git -C /repo checkout -- .",
    },
    "detected_by": [d for d in detected.split(",") if d],
    "missed_before_strengthening": missed == "yes",
}, open(os.path.join(dst, "meta.json"), "w"), indent=1)
print("kept", sid)
