#!/bin/bash
# tools/regress_harmless.sh [id-prefix]: every behaviour-preserving rewrite kept under seeded_harmless/<id>/patch.diff is
# applied in a scratch worktree of /repo (never /repo itself) and ALL twenty quick checks run against it through DSW_REPO.
# One line per rewrite: "<id> quiet" or "<id> ALARM <property> ..." (an alarm is a false alarm of the machinery unless the
# rewrite really breaks that property - DESIGN.md §10.6 lists the one that does: C05-h2 breaks C06).
V="$(cd "$(dirname "$0")/.." && pwd)"
pre="${1:-}"
run_one() {
  d="$1"; id=$(basename "$d")
  wt=$(mktemp -d /tmp/harm_wt.XXXXXX); rmdir "$wt"
  git -C /repo worktree add -q --detach "$wt" HEAD 2>/dev/null || { echo "$id ERROR worktree"; return; }
  r=$("$V/tools/try_harmless.sh" "$wt" "$d" 2>&1 | tr '\n' ' ')
  echo "$id: $r"
  git -C /repo worktree remove --force "$wt" 2>/dev/null
}
export -f run_one; export V
ls -d "$V"/seeded_harmless/${pre}*/ | xargs -P 3 -I{} bash -c 'run_one {}'
