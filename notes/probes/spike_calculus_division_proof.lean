import Mathlib.Tactic.Ring
namespace Sp

/-- value of a most-significant-first digit list -/
def dval (ds : List Nat) : Nat := ds.foldl (fun n d => n * 10 + d) 0

theorem dval_append_single (ds : List Nat) (d : Nat) : dval (ds ++ [d]) = dval ds * 10 + d := by
  simp [dval, List.foldl_append]

/-- strip leading zeros, keeping "0" for zero (the `for index in range(len(quotient))` loop + fallback) -/
def stripZeros : List Nat → List Nat
  | [] => [0]
  | 0 :: ds => stripZeros ds
  | d :: ds => d :: ds

/-- the long-division loop of `calculus_division` -/
def divLoop (b : Nat) : List Nat → List Nat → Nat → List Nat × Nat
  | [], out, rem => (out, rem)
  | q :: rest, out, rem =>
    let cur := q + rem * 10
    if cur ≥ b then divLoop b rest (out ++ [cur / b]) (cur - (cur / b) * b)
    else divLoop b rest (out ++ [0]) cur

def calculusDivision (number : List Nat) (b : Nat) : List Nat × Nat :=
  if b = 0 then ([0], 0)
  else if b = 1 then (number, 0)
  else
    match number with
    | [d] => if d < b then ([0], d) else
        let r := divLoop b number [] 0
        (stripZeros r.1, r.2)
    | _ =>
      let r := divLoop b number [] 0
      (stripZeros r.1, r.2)

theorem dval_stripZeros (ds : List Nat) : dval (stripZeros ds) = dval ds := by
  induction ds with
  | nil => simp [stripZeros, dval]
  | cons d ds ih =>
    cases d with
    | zero =>
      simp only [stripZeros]
      rw [ih]
      simp [dval]
    | succ d => simp [stripZeros]

theorem divLoop_spec (b : Nat) (hb : 0 < b) :
    ∀ (ds out : List Nat) (rem : Nat), rem < b →
      let r := divLoop b ds out rem
      dval r.1 * b + r.2 = (dval out * b + rem) * 10 ^ ds.length + dval ds ∧ r.2 < b := by
  intro ds
  induction ds with
  | nil => intro out rem h; simp [divLoop, dval, h]
  | cons q rest ih =>
    intro out rem hrem
    simp only [divLoop]
    have hd : dval (q :: rest) = q * 10 ^ rest.length + dval rest := by
      have := dval_append_single
      simp only [dval, List.foldl_cons]
      have h2 : ∀ (l : List Nat) (a : Nat), l.foldl (fun n d => n * 10 + d) a = a * 10 ^ l.length + l.foldl (fun n d => n * 10 + d) 0 := by
        intro l
        induction l with
        | nil => simp
        | cons x xs ihx =>
          intro a
          simp only [List.foldl_cons, List.length_cons]
          rw [ihx (a * 10 + x), ihx (0 * 10 + x)]
          ring
      rw [h2 rest (0 * 10 + q)]
      ring
    split
    · rename_i hge
      have hlt : q + rem * 10 - (q + rem * 10) / b * b < b := by
        have h := Nat.mod_lt (q + rem * 10) hb
        have e : (q + rem * 10) % b = q + rem * 10 - (q + rem * 10) / b * b := by
          rw [Nat.mod_def, Nat.mul_comm b]
        omega
      obtain ⟨h1, h2⟩ := ih (out ++ [(q + rem * 10) / b]) _ hlt
      refine ⟨?_, h2⟩
      rw [h1, dval_append_single, hd]
      have hdm : (q + rem * 10) / b * b + (q + rem * 10 - (q + rem * 10) / b * b) = q + rem * 10 := by
        have := Nat.div_mul_le_self (q + rem * 10) b
        omega
      simp only [List.length_cons, Nat.pow_succ]
      have : (dval out * 10 + (q + rem * 10) / b) * b + (q + rem * 10 - (q + rem * 10) / b * b)
           = (dval out * b + rem) * 10 + q := by
        rw [Nat.add_mul, Nat.add_assoc, hdm]
        ring
      rw [this]
      ring
    · rename_i hlt
      have hlt' : q + rem * 10 < b := by omega
      obtain ⟨h1, h2⟩ := ih (out ++ [0]) _ hlt'
      refine ⟨?_, h2⟩
      rw [h1, dval_append_single, hd]
      simp only [List.length_cons, Nat.pow_succ]
      ring

/-- value correctness of `calculus_division` for bases ≥ 1 -/
theorem calculusDivision_spec (number : List Nat) (b : Nat) (hb : 0 < b) :
    dval (calculusDivision number b).1 = dval number / b ∧ (calculusDivision number b).2 = dval number % b := by
  have key : ∀ r : List Nat × Nat, (dval r.1 * b + r.2 = dval number ∧ r.2 < b) →
      dval r.1 = dval number / b ∧ r.2 = dval number % b := by
    intro r ⟨h1, h2⟩
    have : dval number = b * dval r.1 + r.2 := by rw [← h1, Nat.mul_comm]
    constructor
    · rw [this, Nat.mul_add_div hb, Nat.div_eq_of_lt h2]; simp
    · rw [this, Nat.mul_add_mod, Nat.mod_eq_of_lt h2]
  have loop : dval (divLoop b number [] 0).1 * b + (divLoop b number [] 0).2 = dval number ∧ (divLoop b number [] 0).2 < b := by
    have := divLoop_spec b hb number [] 0 hb
    simpa [dval] using this
  unfold calculusDivision
  have hb0 : b ≠ 0 := by omega
  simp only [hb0, if_false]
  by_cases h1 : b = 1
  · subst h1; simp [Nat.mod_one]
  · simp only [h1, if_false]
    split
    · rename_i d
      split
      · rename_i hd
        simp [dval, Nat.div_eq_of_lt hd, Nat.mod_eq_of_lt hd]
      · apply key
        simp only [dval_stripZeros]
        exact loop
    · apply key
      simp only [dval_stripZeros]
      exact loop

end Sp
