import numpy as np, random, sys, time, math, copy
from dsw import *
rng = random.Random(int(sys.argv[1]))
f=0;calls=0;raised={}
for it in range(150):
    k=rng.choice([2,2,3]); N=4**k; t=rng.choice([1,2,2,3])
    p=rng.choice([0.6,0.8,1.0])
    mask=np.array([1 if rng.random()<p else 0 for _ in range(N)])
    try: vs,acc=connect_coding_graph(k,mask,t)
    except ValueError: continue
    lm=accessor_to_latter_map(acc)
    hi,hd=rng.random()<0.5,rng.random()<0.5
    for step in range(rng.choice([1,3,10,100])):
        before=acc.copy()
        sc=calculate_intersection_score(copy.deepcopy(lm),k,hi,hd)
        if sc.shape!=acc.shape: f+=1; print("shape")
        if ((sc>0)&(before<0)).any(): f+=1; print("score on nonarc")
        try:
            a2,l2,(fo,la),scores=remove_nasty_arc(acc,lm,has_insertion=hi,has_deletion=hd)
        except Exception as e:
            raised[type(e).__name__]=raised.get(type(e).__name__,0)+1
            break
        calls+=1
        diff=np.argwhere(before!=acc)
        if len(diff)!=1: f+=1; print("diff count",len(diff)); break
        r,c=diff[0]
        if before[r][c]<0 or acc[r][c]!=-1: f+=1; print("not removal")
        if (r,before[r][c])!=(fo,la): f+=1; print("reported arc mismatch")
        if sc[r][c]!=sc.max(): f+=1; print("not max score",sc[r][c],sc.max())
        ref={int(a):b for a,b in accessor_to_latter_map(acc).items()}
        if ref!={int(a):[int(x) for x in b] for a,b in lm.items()}: f+=1; print("views diverge")
        if a2 is not acc or l2 is not lm: print("not same objects")
print("C19 calls",calls,"fails",f,"raised",raised)
# C18
f=0
for k in range(1,5):
    for seed in [0,1,2021,rng.randrange(10**6)]:
        a=create_random_shuffles(k,seed); b=create_random_shuffles(k,seed)
        if not (a==b).all(): f+=1
        if a.shape!=(4**k,4) or any(sorted(r)!=[0,1,2,3] for r in a.tolist()): f+=1
print("C18",f)
