import Mathlib.Data.Fintype.Pigeonhole
import Mathlib.Data.Fintype.Card
import Mathlib.Logic.Function.Iterate

namespace Sp

/-- If a forced path from `v` ever reaches a vertex satisfying `B`, it does so within `N - 1` steps
    (all vertices `< N`, `f` maps `[0,N)` to itself). -/
theorem reach_within (N : ℕ) (f : Fin N → Fin N) (B : Fin N → Prop) [DecidablePred B] (v : Fin N)
    (h : ∃ n, B (f^[n] v)) : ∃ n, n < N ∧ B (f^[n] v) := by
  classical
  let n := Nat.find h
  have hn : B (f^[n] v) := Nat.find_spec h
  have hmin : ∀ m, m < n → ¬ B (f^[m] v) := fun m hm => Nat.find_min h hm
  by_cases hlt : n < N
  · exact ⟨n, hlt, hn⟩
  · exfalso
    have hge : N ≤ n := Nat.le_of_not_lt hlt
    -- pigeonhole on the map i ↦ f^[i] v for i : Fin (N+1)
    obtain ⟨i, j, hij, hEq⟩ := Fintype.exists_ne_map_eq_of_card_lt
      (fun i : Fin (N + 1) => f^[i.val] v) (by simp)
    -- wlog i < j
    have key : ∀ a b : ℕ, a < b → b ≤ N → f^[a] v = f^[b] v → False := by
      intro a b hab hbN he
      have hshift : ∀ m, f^[a + m] v = f^[b + m] v := by
        intro m
        rw [Nat.add_comm a m, Nat.add_comm b m, Function.iterate_add_apply, Function.iterate_add_apply, he]
      have hb : b ≤ n := Nat.le_trans hbN hge
      have h1 : f^[a + (n - b)] v = f^[n] v := by
        rw [hshift (n - b)]
        congr 2
        omega
      have : a + (n - b) < n := by omega
      exact hmin _ this (h1 ▸ hn)
    rcases Nat.lt_or_gt_of_ne (fun h => hij (Fin.ext h)) with hlt' | hgt'
    · exact key i.val j.val hlt' (Nat.lt_succ_iff.mp j.isLt) hEq
    · exact key j.val i.val hgt' (Nat.lt_succ_iff.mp i.isLt) hEq.symm

end Sp
#print axioms Sp.reach_within
