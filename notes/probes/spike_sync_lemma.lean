namespace Sp

/-- Horner value of a nucleotide list (values < 4). -/
def num (l : List Nat) : Nat := l.foldl (fun n c => n * 4 + c) 0

theorem foldl_horner (l : List Nat) (a : Nat) :
    l.foldl (fun n c => n * 4 + c) a = a * 4 ^ l.length + l.foldl (fun n c => n * 4 + c) 0 := by
  induction l generalizing a with
  | nil => simp
  | cons x xs ih =>
    simp only [List.foldl_cons, List.length_cons]
    rw [ih (a * 4 + x), ih (0 * 4 + x)]
    simp [Nat.pow_succ, Nat.add_mul, Nat.mul_assoc, Nat.mul_comm 4, Nat.add_assoc]

theorem num_append (a b : List Nat) : num (a ++ b) = num a * 4 ^ b.length + num b := by
  simp only [num, List.foldl_append]
  rw [foldl_horner]

theorem num_cons (x : Nat) (xs : List Nat) : num (x :: xs) = x * 4 ^ xs.length + num xs := by
  have := num_append [x] xs
  simpa [num] using this

theorem num_lt (l : List Nat) (h : ∀ x ∈ l, x < 4) : num l < 4 ^ l.length := by
  induction l with
  | nil => simp [num]
  | cons x xs ih =>
    rw [num_cons]
    have hx : x < 4 := h x (by simp)
    have hxs := ih (fun y hy => h y (by simp [hy]))
    have : x * 4 ^ xs.length ≤ 3 * 4 ^ xs.length := Nat.mul_le_mul_right _ (by omega)
    simp only [List.length_cons, Nat.pow_succ]
    omega

/-- de Bruijn successor on indices -/
def succIdx (k v j : Nat) : Nat := (4 * v + j) % 4 ^ k

/-- the vertex reached after reading `s` from `v` (ignoring liveness). -/
def vertexAfter (k : Nat) : Nat → List Nat → Nat
  | v, [] => v
  | v, j :: s => vertexAfter k (succIdx k v j) s

/-- synchronisation: the vertex after reading `s` from the vertex of k-mer `p` is the index of `p ++ s` mod 4^k. -/
theorem vertexAfter_eq (k : Nat) (p s : List Nat) :
    vertexAfter k (num p % 4 ^ k) s = num (p ++ s) % 4 ^ k := by
  induction s generalizing p with
  | nil => simp [vertexAfter]
  | cons j s ih =>
    simp only [vertexAfter]
    have : succIdx k (num p % 4 ^ k) j = num (p ++ [j]) % 4 ^ k := by
      rw [num_append]
      have h1 : num [j] = j := by simp [num]
      simp only [succIdx, List.length_singleton, Nat.pow_one, h1]
      rw [Nat.mul_comm (num p) 4]
      simp [Nat.add_mod, Nat.mul_mod]
    rw [this, ih (p ++ [j])]
    simp

/-- last k symbols determine the index mod 4^k -/
theorem num_mod_drop (k : Nat) (l : List Nat) (h : ∀ x ∈ l, x < 4) (hk : k ≤ l.length) :
    num l % 4 ^ k = num (l.drop (l.length - k)) := by
  have hsplit : l = l.take (l.length - k) ++ l.drop (l.length - k) := (List.take_append_drop _ _).symm
  have hlen : (l.drop (l.length - k)).length = k := by simp; omega
  conv => lhs; rw [hsplit, num_append, hlen]
  rw [Nat.mul_add_mod_self_right]
  apply Nat.mod_eq_of_lt
  have := num_lt (l.drop (l.length - k)) (fun x hx => h x (List.mem_of_mem_drop hx))
  rwa [hlen] at this

end Sp
