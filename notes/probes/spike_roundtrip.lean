/-! spike: mixed-radix walk round trip -/
namespace Sp

/-- abstract coding graph: `ord v` = arcs of `v` in digit order (nucleotide, target). -/
structure G where
  ord : Nat → List (Nat × Nat)     -- (nucleotide, target) in digit order

def G.deg (g : G) (v : Nat) : Nat := (g.ord v).length

/-- encoder, fuel-bounded. returns none when fuel runs out or dead end. -/
def enc (g : G) : Nat → Nat → Nat → Option (List Nat)
  | _, 0, _ => some []
  | 0, _+1, _ => none
  | fuel+1, q+1, v =>
    match h : g.ord v with
    | [] => none
    | [(n, t)] => (enc g fuel (q+1) t).map (n :: ·)
    | _ :: _ :: _ =>
      let r := (g.ord v).length
      match (g.ord v)[(q+1) % r]? with
      | none => none
      | some (n, t) => (enc g fuel ((q+1) / r) t).map (n :: ·)

/-- decoder to value (Horner from the back = direct recursion). none if not a walk. -/
def dec (g : G) : List Nat → Nat → Option Nat
  | [], _ => some 0
  | n :: s, v =>
    match (g.ord v).findIdx? (fun p => p.1 = n) with
    | none => none
    | some d =>
      match (g.ord v)[d]? with
      | none => none
      | some (_, t) =>
        let r := (g.ord v).length
        if r > 1 then (dec g s t).map (fun x => x * r + d)
        else dec g s t

def G.NodupNuc (g : G) : Prop := ∀ v, ((g.ord v).map Prod.fst).Nodup

theorem findIdx_of_nodup {l : List (Nat × Nat)} (hn : (l.map Prod.fst).Nodup) {d : Nat} {n t : Nat}
    (h : l[d]? = some (n, t)) : l.findIdx? (fun p => p.1 = n) = some d := by
  induction l generalizing d with
  | nil => simp at h
  | cons a l ih =>
    cases d with
    | zero =>
      simp at h; subst h; simp [List.findIdx?_cons]
    | succ d =>
      simp at h
      simp only [List.map_cons, List.nodup_cons] at hn
      have hne : a.1 ≠ n := by
        intro he
        apply hn.1
        rw [he]
        have := List.mem_of_getElem? h
        exact List.mem_map.mpr ⟨(n,t), this, rfl⟩
      simp [List.findIdx?_cons, hne, ih hn.2 h]

theorem dec_enc (g : G) (hg : g.NodupNuc) : ∀ fuel q v s, enc g fuel q v = some s → dec g s v = some q := by
  intro fuel
  induction fuel with
  | zero =>
    intro q v s h
    cases q with
    | zero => simp [enc] at h; subst h; simp [dec]
    | succ q => simp [enc] at h
  | succ fuel ih =>
    intro q v s h
    cases q with
    | zero => simp [enc] at h; subst h; simp [dec]
    | succ q =>
      unfold enc at h
      split at h
      · simp at h
      · rename_i n t hv
        simp only [Option.map_eq_some_iff] at h
        obtain ⟨s', hs', rfl⟩ := h
        have := ih _ _ _ hs'
        have hf : (g.ord v).findIdx? (fun p => p.1 = n) = some 0 := by
          rw [hv]; simp [List.findIdx?_cons]
        simp [dec, hf, hv, this]
      · rename_i a b c hv
        simp only at h
        split at h
        · simp at h
        · rename_i n t hd
          simp only [Option.map_eq_some_iff] at h
          obtain ⟨s', hs', rfl⟩ := h
          have := ih _ _ _ hs'
          have hf := findIdx_of_nodup (hg v) hd
          have hr : (g.ord v).length > 1 := by rw [hv]; simp
          simp only [dec, hf, hd, this, hr, if_true, Option.map_some]
          congr 1
          rw [Nat.mul_comm]
          exact Nat.div_add_mod _ _
end Sp
