import numpy as np, random, sys, time, itertools
from dsw import *
rng = random.Random(int(sys.argv[1]) if len(sys.argv)>1 else 0)
NT="ACGT"
def rand_graph(k, dens, allow3=True):
    N=4**k
    acc=-np.ones((N,4),dtype=int)
    for v in range(N):
        for j in range(4):
            if rng.random()<dens: acc[v][j]=(v*4+j)%N
    return acc
def wellformed_reach(acc, start):
    # every reachable vertex has >=1 arc and can reach a branching vertex
    N=len(acc); seen={start}; st=[start]
    while st:
        v=st.pop()
        for j in range(4):
            u=acc[v][j]
            if u>=0 and u not in seen: seen.add(u); st.append(u)
    deg={v:int((acc[v]>=0).sum()) for v in seen}
    if any(d==0 for d in deg.values()): return False
    good={v for v in seen if deg[v]>=2}
    ch=True
    while ch:
        ch=False
        for v in seen:
            if v not in good and any(acc[v][j]>=0 and acc[v][j] in good for j in range(4)): good.add(v); ch=True
    return good==seen
def ref_encode(bits, acc, start, shuffles):
    val=0
    for b in bits: val=val*2+int(b)
    v=start; s=""
    while val!=0:
        live=[j for j in range(4) if acc[v][j]>=0]
        if len(live)>1:
            val,d=divmod(val,len(live))
            if shuffles is not None:
                order=sorted(range(len(live)), key=lambda i: shuffles[v][live[i]])
                j=live[order[d]]
            else: j=live[d]
        else: j=live[0]
        s+=NT[j]; v=acc[v][j]
    return s
stats=dict(n=0,fail=0)
t0=time.time()
while time.time()-t0<float(sys.argv[2]):
    k=rng.choice([1,2,3])
    acc=rand_graph(k,rng.choice([0.4,0.6,0.8,1.0]))
    N=4**k
    start=rng.randrange(N)
    if not wellformed_reach(acc,start): continue
    sh=None
    if rng.random()<0.6:
        sh=np.array([rng.sample(range(4),4) for _ in range(N)])
    L=rng.choice([0,1,2,3,5,8,13,40])
    bits=np.array([rng.randint(0,1) for _ in range(L)],dtype=int)
    if rng.random()<0.1: bits[:]=0
    vt=rng.choice([0,0,1,2,5])
    stats['n']+=1
    try:
        out=encode(bits,acc,start,shuffles=sh,vt_length=vt)
        if vt>0: s,chk=out
        else: s,chk=out,None
        r=ref_encode(bits,acc,start,sh)
        if s!=r: stats['fail']+=1; print("C05 mismatch",k,start,bits.tolist(),s,r)
        d=decode(s,L,acc,start,shuffles=sh,vt_check=chk)
        if list(d)!=list(bits): stats['fail']+=1; print("C01 mismatch",k,start,bits.tolist(),s,list(d))
    except Exception as e:
        stats['fail']+=1; print("EXC",type(e).__name__,e,k,start,bits.tolist(),vt)
print(stats)
