import numpy as np, random, sys, time, math
from fractions import Fraction
from dsw import *
rng = random.Random(int(sys.argv[1]))
def scc_ok(acc):
    # cyclic part single SCC aperiodic, with gap: use numpy eig on the small matrix for screening only
    N=len(acc); A=np.zeros((N,N))
    for v in range(N):
        for j in range(4):
            if acc[v][j]>=0: A[v][acc[v][j]]=1
    ev=np.linalg.eigvals(A); mods=sorted(np.abs(ev),reverse=True)
    if mods[0]<1e-9: return None
    if mods[1]>0.9*mods[0]: return None
    return math.log2(mods[0])
def cw(acc, iters=400):
    N=len(acc); x=[1]*N
    live=[v for v in range(N) if (acc[v]>=0).any()]
    for _ in range(iters):
        y=[sum(x[acc[v][j]] for j in range(4) if acc[v][j]>=0) for v in range(N)]
        g=math.gcd(*[a for a in y if a]) if any(y) else 1
        x=[a//g for a in y]
    return x
bad1=bad10=n=0
for it in range(300):
    k=rng.choice([2,2,3]); N=4**k
    acc=-np.ones((N,4),dtype=int); d=rng.choice([0.4,0.6,0.8])
    for v in range(N):
        for j in range(4):
            if rng.random()<d: acc[v][j]=(4*v+j)%N
    ref=scc_ok(acc)
    if ref is None: continue
    n+=1
    c1=approximate_capacity(acc,repeats=1)
    c10=approximate_capacity(acc,repeats=3)
    if abs(c1-ref)>1e-4: bad1+=1
    if abs(c10-ref)>1e-4: bad10+=1; print("rand bad",c10,ref)
print(n,bad1,bad10)
