import Sp.Repair
namespace Sp

def isWalk (a : Acc) : Int → List Char → Bool
  | _, [] => true
  | v, c :: s => match a.next v c with
    | some t => isWalk a t s
    | none => false

/-- scanning a clean suffix: no detection, the current split grows by the suffix. -/
theorem scan_clean (a : Acc) (k : Nat) (dna : List Char) :
    ∀ (fuel : Nat) (st : Scan), st.splits ≠ [] → st.loc ≤ dna.length → dna.length - st.loc ≤ fuel →
      isWalk a st.v (dna.drop st.loc) = true →
      (scan a k dna fuel st).detected = st.detected ∧ (scan a k dna fuel st).markers = st.markers ∧
      (scan a k dna fuel st).chunks = st.chunks ∧
      (scan a k dna fuel st).splits = (st.splits.headD [] ++ dna.drop st.loc) :: st.splits.tail ∧
      (scan a k dna fuel st).visited = st.visited + (dna.length - st.loc) := by
  intro fuel
  induction fuel with
  | zero =>
    intro st hne hle hf hw
    have : st.loc = dna.length := by omega
    cases h : st.splits with
    | nil => exact absurd h hne
    | cons x xs => simp [scan, this, h]
  | succ fuel ih =>
    intro st hne hle hf hw
    by_cases hlt : st.loc < dna.length
    · simp only [scan, hlt, if_true]
      have hd : dna.drop st.loc = dna.getD st.loc 'A' :: dna.drop (st.loc + 1) := by
        rw [List.drop_eq_getElem_cons hlt]
        simp [List.getD, List.getElem?_eq_getElem hlt]
      rw [hd] at hw
      simp only [isWalk] at hw
      split at hw
      · rename_i t ht
        have hstep : scanStep a k dna st = st.advance (dna.getD st.loc 'A') t := by
          simp only [scanStep, ht]
        rw [hstep]
        have := ih (st.advance (dna.getD st.loc 'A') t)
              (by simp [Scan.advance]) (by simp [Scan.advance]; omega) (by simp [Scan.advance]; omega)
              (by simpa [Scan.advance] using hw)
        obtain ⟨h1, h2, h3, h4, h5⟩ := this
        refine ⟨h1, h2, h3, ?_, ?_⟩
        · rw [h4, hd]; simp [Scan.advance]
        · rw [h5]; simp [Scan.advance]; omega
      · simp at hw
    · have : st.loc = dna.length := by omega
      cases h : st.splits with
      | nil => exact absurd h hne
      | cons x xs => simp [scan, this, h]

end Sp
