import numpy as np, random, sys, time
from dsw import *
exec(open('/tmp/probe/p5.py').read().split("def ref_encode")[0].split("rng = ")[0])
rng = random.Random(int(sys.argv[1]))
NT="ACGT"
exec("def rand_graph"+open('/tmp/probe/p5.py').read().split("def rand_graph")[1].split("def ref_encode")[0])
def ref_fast(bits,acc,start,sh):
    v=start;s="";loc=0;L=len(bits)
    while loc<L:
        live=[j for j in range(4) if acc[v][j]>=0]
        r=len(live)
        if r==4:
            d=int(bits[loc])*2+(int(bits[loc+1]) if loc+1<L else 0); loc+=2
        elif r==2: d=int(bits[loc]); loc+=1
        elif r==1: d=0
        else: raise Exception("bad")
        if sh is not None and r>1:
            order=sorted(range(r), key=lambda i: sh[v][live[i]]); j=live[order[d]]
        else: j=live[d]
        s+=NT[j]; v=acc[v][j]
    return s
stats=dict(n=0,fail=0)
t0=time.time()
while time.time()-t0<float(sys.argv[2]):
    k=rng.choice([1,2,3]); N=4**k
    acc=-np.ones((N,4),dtype=int)
    for v in range(N):
        d=rng.choice([1,2,2,4,4])
        for j in rng.sample(range(4),d): acc[v][j]=(v*4+j)%N
    start=rng.randrange(N)
    if not wellformed_reach(acc,start): continue
    sh=None
    if rng.random()<0.6: sh=np.array([rng.sample(range(4),4) for _ in range(N)])
    L=rng.choice([0,1,2,3,5,8,13,40])
    bits=np.array([rng.randint(0,1) for _ in range(L)],dtype=int)
    vt=rng.choice([0,0,1,2,5])
    stats['n']+=1
    try:
        out=encode(bits,acc,start,shuffles=sh,vt_length=vt,is_faster=True)
        if vt>0: s,chk=out
        else: s,chk=out,None
        r=ref_fast(bits,acc,start,sh)
        if s!=r: stats['fail']+=1; print("C05 mismatch",k,start,bits.tolist(),s,r)
        d=decode(s,L,acc,start,shuffles=sh,vt_check=chk,is_faster=True)
        if list(d)!=list(bits): stats['fail']+=1; print("C01 mismatch",k,start,bits.tolist(),s,list(d))
    except Exception as e:
        stats['fail']+=1; print("EXC",type(e).__name__,e,k,start,bits.tolist(),vt)
print(stats)
