/-! spike: faithful model of repair_dna / path_matching / set_vt (fixed tree) -/
namespace Sp

abbrev Acc := Array (Array Int)

def pyNorm (n : Nat) (i : Int) : Nat :=
  if i < 0 then (n + i).toNat else min i.toNat n

def pySlice {α} (l : List α) (a b : Int) : List α :=
  let n := l.length
  let a' := pyNorm n a
  let b' := pyNorm n b
  (l.drop a').take (b' - a')

def nucIdx (c : Char) : Option Nat :=
  if c = 'A' then some 0 else if c = 'C' then some 1 else if c = 'G' then some 2 else if c = 'T' then some 3 else none

def nucChar (j : Nat) : Char := if j = 0 then 'A' else if j = 1 then 'C' else if j = 2 then 'G' else 'T'

/-- python `accessor[v]` with negative wrap; out of range -> empty row (python would raise IndexError). -/
def Acc.row (a : Acc) (v : Int) : Array Int :=
  let n : Int := a.size
  let i := if v < 0 then v + n else v
  if 0 ≤ i ∧ i < n then a[i.toNat]! else #[]

def Acc.next (a : Acc) (v : Int) (c : Char) : Option Int :=
  match nucIdx c with
  | none => none
  | some j => let t := (a.row v).getD j (-1); if t ≥ 0 then some t else none

def Acc.live (a : Acc) (v : Int) : List Nat :=
  (List.range 4).filter (fun j => (a.row v).getD j (-1) ≥ 0)

def dnaToNum (s : List Char) : Nat := s.foldl (fun n c => n * 4 + (nucIdx c).getD 0) 0

/-- walk `s` from `v`, counting steps; returns (reliable, visited) -/
def walkCount (a : Acc) : Int → List Char → Nat → Bool × Nat
  | _, [], n => (true, n)
  | v, c :: s, n =>
    match a.next v c with
    | some t => walkCount a t s (n+1)
    | none => (false, n)

def pathMatching (a : Acc) (chunk : List Char) (prev : Int) (occ : Nat) (hasIndel : Bool) : List (List Char) × Nat :=
  let original := chunk.getD occ 'A'
  let used := a.live prev
  let subs := (used.map nucChar).filter (· ≠ original)
  let (r1, c1) := subs.foldl (fun (acc : List (List Char) × Nat) x =>
      let t := (a.row prev).getD ((nucIdx x).getD 0) (-1)
      let (ok, n) := walkCount a t (chunk.drop (occ+1)) 0
      (if ok then acc.1 ++ [chunk.set occ x] else acc.1, acc.2 + n)) ([], 0)
  if !hasIndel then (r1, c1) else
  let (r2, c2) := (used.map nucChar).foldl (fun (acc : List (List Char) × Nat) x =>
      let t := (a.row prev).getD ((nucIdx x).getD 0) (-1)
      let (ok, n) := walkCount a t (chunk.drop occ) 0
      (if ok then acc.1 ++ [chunk.take occ ++ [x] ++ chunk.drop occ] else acc.1, acc.2 + n)) (r1, c1)
  let (ok, n) := walkCount a prev (chunk.drop (occ+1)) 0
  (if ok then r2 ++ [chunk.take occ ++ chunk.drop (occ+1)] else r2, c2 + n)

structure Scan where
  loc : Nat := 0
  v : Int
  queue : Array Int
  splits : List (List Char) := [[]]     -- most recent first
  chunks : List (List Char) := []       -- most recent first
  markers : List (List Int) := []       -- most recent first
  detected : Nat := 0
  visited : Nat := 0

def Scan.advance (st : Scan) (c : Char) (t : Int) : Scan :=
  { st with splits := (st.splits.headD [] ++ [c]) :: st.splits.tail, v := t,
            queue := st.queue.setIfInBounds st.loc t, visited := st.visited + 1, loc := st.loc + 1 }

def Scan.detect (st : Scan) (k : Nat) (dna : List Char) : Scan :=
  let cur := st.splits.headD []
  let cur' := pySlice cur 0 ((cur.length : Int) - k + 1)
  let l : Int := st.loc
  let v' : Nat := dnaToNum (pySlice dna (l + 1) (l + k + 1))
  { st with detected := st.detected + 1,
            splits := [nucChar (v' % 4)] :: cur' :: st.splits.tail,
            v := v',
            markers := pySlice st.queue.toList (l - k) l :: st.markers,
            chunks := pySlice dna (l - k + 1) (l + k) :: st.chunks,
            loc := st.loc + k + 1 }

def scanStep (a : Acc) (k : Nat) (dna : List Char) (st : Scan) : Scan :=
  let c := dna.getD st.loc 'A'
  match a.next st.v c with
  | some t => st.advance c t
  | none => st.detect k dna

def scan (a : Acc) (k : Nat) (dna : List Char) : Nat → Scan → Scan
  | 0, st => st
  | fuel+1, st => if st.loc < dna.length then scan a k dna fuel (scanStep a k dna st) else st

def setVt (s : List Char) (n : Nat) : List Char :=
  let vals := s.map (fun c => (nucIdx c).getD 0)
  let flag := vals.foldl (· + ·) 0 % 4
  let rec asc : List Nat → Nat → Nat → Nat
    | x :: y :: r, i, accu => asc (y :: r) (i+1) (if y > x then accu + i else accu)
    | _, _, accu => accu
  let v := asc vals 0 0 % 4 ^ (n - 1)
  let rec digs : Nat → Nat → List Char → List Char
    | 0, _, out => out
    | w+1, x, out => digs w (x / 4) (nucChar (x % 4) :: out)
  nucChar flag :: digs (n - 1) v []

def product : List (List (List Char)) → List (List (List Char))
  | [] => [[]]
  | fs :: rest => (fs.flatMap fun f => (product rest).map (f :: ·))

def strLt (a b : List Char) : Bool := decide (String.ofList a < String.ofList b)

def repair (a : Acc) (dna : List Char) (start : Int) (k : Nat) (vt : Option (List Char)) (hasIndel : Bool) (heap : Nat)
    : List (List Char) × (Nat × Bool × Nat × Nat) :=
  let st := scan a k dna (dna.length + 1) { v := start, queue := Array.replicate dna.length (-1) }
  let splits := st.splits.reverse
  let chunks := st.chunks.reverse
  let markers := st.markers.reverse
  let (fragSets, visited) := (chunks.zip markers).foldl (fun (acc : List (List (List Char)) × Nat) (cm : List Char × List Int) =>
      let (chunk, marker) := cm
      let (frs, vis) := (marker.reverse.zipIdx).foldl (fun (acc2 : List (List Char) × Nat) (p : Int × Nat) =>
          let (rec', n) := pathMatching a chunk p.1 (k - p.2 - 1) hasIndel
          (acc2.1 ++ rec', acc2.2 + n)) ([], 0)
      (acc.1 ++ [frs.eraseDups], acc.2 + vis)) ([], st.visited)
  let count := fragSets.foldl (fun c f => c * f.length) 1
  let vtOk (s : List Char) : Bool := match vt with | none => true | some c => setVt s c.length == c
  if count = 0 ∨ count > heap then
    if vtOk dna then ([dna], (0, false, 0, visited)) else ([], (0, vt.isSome, 0, visited))
  else
    let cands := (product fragSets).map fun frs =>
      let body := (splits.zip frs).foldl (fun s (p : List Char × List Char) => s ++ p.1 ++ p.2) []
      body ++ splits.getLastD []
    let kept := cands.filter vtOk
    let flag := vt.isSome && cands.any (fun c => !vtOk c)
    ((kept.eraseDups).mergeSort (fun x y => !strLt y x), (st.detected, flag, count, visited))

end Sp
