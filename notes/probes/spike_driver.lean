import Sp.Repair
open Sp

def parseAcc (s : String) : Acc :=
  ((s.splitOn ";").map fun r => ((r.splitOn ",").map String.toInt!).toArray).toArray

def render (r : List (List Char) × (Nat × Bool × Nat × Nat)) : String :=
  let cs := ",".intercalate (r.1.map String.ofList)
  s!"{cs}|{r.2.1}|{r.2.2.1}|{r.2.2.2.1}|{r.2.2.2.2}"

partial def loop (h : IO.FS.Stream) : IO Unit := do
  let line ← h.getLine
  if line.isEmpty then return ()
  match (line.trimAscii.toString).splitOn " " with
  | [acc, dna, start, k, vt, indel, heap] =>
    let r := repair (parseAcc acc) (if dna = "-" then [] else dna.toList) start.toInt! k.toNat! (if vt = "-" then none else some vt.toList) (indel = "1") heap.toNat!
    IO.println (render r)
  | _ => IO.println "bad-op"
  loop h

def main : IO Unit := do loop (← IO.getStdin)
