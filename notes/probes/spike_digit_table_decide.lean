/-- stable insertion argsort of keys: returns indices sorted by key -/
def insertBy (keys : List Nat) (i : Nat) : List Nat → List Nat
  | [] => [i]
  | j :: r => if keys.getD i 0 < keys.getD j 0 then i :: j :: r else j :: insertBy keys i r

def argsort (keys : List Nat) : List Nat :=
  (List.range keys.length).foldl (fun acc i => insertBy keys i acc) []

def liveOf (pat : Nat) : List Nat := (List.range 4).filter (fun j => pat / 2^j % 2 = 1)

def sel (row : List Nat) (live : List Nat) (d : Nat) : Nat :=
  live.getD ((argsort (live.map (fun j => row.getD j 0))).getD d 0) 0

def unsel (row : List Nat) (live : List Nat) (j : Nat) : Nat :=
  (argsort (live.map (fun j => row.getD j 0))).idxOf (live.idxOf j)

def rank (row : List Nat) (live : List Nat) (j : Nat) : Nat :=
  (live.filter (fun j' => row.getD j' 0 < row.getD j 0)).length

def perms4 : List (List Nat) :=
  [[0,1,2,3],[0,1,3,2],[0,2,1,3],[0,2,3,1],[0,3,1,2],[0,3,2,1],
   [1,0,2,3],[1,0,3,2],[1,2,0,3],[1,2,3,0],[1,3,0,2],[1,3,2,0],
   [2,0,1,3],[2,0,3,1],[2,1,0,3],[2,1,3,0],[2,3,0,1],[2,3,1,0],
   [3,0,1,2],[3,0,2,1],[3,1,0,2],[3,1,2,0],[3,2,0,1],[3,2,1,0]]

#eval argsort [3,1,2]
#eval sel [3,2,1,0] (liveOf 5) 0

theorem table_ok : ∀ row ∈ perms4, ∀ pat ∈ List.range 16, ∀ d ∈ List.range 4,
    d < (liveOf pat).length →
      (sel row (liveOf pat) d) ∈ liveOf pat ∧ unsel row (liveOf pat) (sel row (liveOf pat) d) = d
      ∧ rank row (liveOf pat) (sel row (liveOf pat) d) = d := by
  decide +kernel

#print axioms table_ok
