namespace Sp

/-- the k-window starting at i -/
def window {α} (l : List α) (i k : Nat) : List α := (l.drop i).take k

theorem infix_iff_take_drop {α} (m l : List α) :
    m <:+: l ↔ ∃ a, a + m.length ≤ l.length ∧ (l.drop a).take m.length = m := by
  constructor
  · rintro ⟨s, t, h⟩
    refine ⟨s.length, ?_, ?_⟩
    · rw [← h]; simp
    · rw [← h]; simp
  · rintro ⟨a, _, h⟩
    refine ⟨l.take a, (l.drop a).drop m.length, ?_⟩
    rw [List.append_assoc]
    have : m ++ List.drop m.length (List.drop a l) = List.drop a l := by
      conv => lhs; lhs; rw [← h]
      exact List.take_append_drop _ _
    rw [this, List.take_append_drop]

/-- an infix of length ≤ k of a list of length ≥ k lies inside one of its k-windows -/
theorem infix_in_window {α} (m l : List α) (k : Nat) (hk : k ≤ l.length) (hm : m.length ≤ k)
    (h : m <:+: l) : ∃ i, i + k ≤ l.length ∧ m <:+: window l i k := by
  obtain ⟨a, ha, hEq⟩ := (infix_iff_take_drop m l).1 h
  refine ⟨min a (l.length - k), by omega, ?_⟩
  rw [infix_iff_take_drop]
  refine ⟨a - min a (l.length - k), ?_, ?_⟩
  · simp [window]; omega
  · unfold window
    rw [List.drop_take, List.drop_drop, List.take_take]
    have h1 : min a (l.length - k) + (a - min a (l.length - k)) = a := by omega
    have h2 : min m.length (k - (a - min a (l.length - k))) = m.length := by omega
    rw [h2, h1]
    exact hEq

end Sp
