import numpy as np, random, sys, time
from dsw import *
rng = random.Random(int(sys.argv[1]))
def oracle(k, mask, t):
    N=4**k; S=set(i for i in range(N) if mask[i])
    while True:
        S2={v for v in S if sum(((4*v+j)%N) in S for j in range(4))>=t}
        if t==1:
            # must reach a branching vertex within S2 (computed on S2)
            deg={v:sum(((4*v+j)%N) in S2 for j in range(4)) for v in S2}
            good={v for v in S2 if deg[v]>=2}
            ch=True
            while ch:
                ch=False
                for v in S2:
                    if v not in good and any(((4*v+j)%N) in good for j in range(4)): good.add(v); ch=True
            S2=good
        if S2==S: break
        S=S2
    return S
stats=dict(n=0,fail=0,exc={})
t0=time.time()
ts=[int(x) for x in sys.argv[3].split(',')]
while time.time()-t0<float(sys.argv[2]):
    k=rng.choice([1,2,2,3]); N=4**k; t=rng.choice(ts)
    p=rng.choice([0.3,0.5,0.7,0.9,1.0])
    mask=np.array([1 if rng.random()<p else 0 for _ in range(N)], dtype=rng.choice([int,bool]))
    m0=mask.copy()
    S=oracle(k,mask,t)
    stats['n']+=1
    try:
        v,a=connect_coding_graph(k,mask,t)
        got=set(obtain_vertices(a).tolist())
        exp_acc=-np.ones((N,4),dtype=int)
        for u in S:
            for j in range(4):
                if (4*u+j)%N in S: exp_acc[u][j]=(4*u+j)%N
        if not S or not (a==exp_acc).all():
            stats['fail']+=1
            if stats['fail']<6: print("MISMATCH",k,t,m0.astype(int).tolist(),"exp",sorted(S),"got",sorted(got))
    except ValueError as e:
        if S: stats['fail']+=1; print("unexpected ValueError",k,t,m0.astype(int).tolist(),sorted(S))
    except Exception as e:
        stats['exc'][type(e).__name__]=stats['exc'].get(type(e).__name__,0)+1
        if stats['exc'][type(e).__name__]<3: print("EXC",type(e).__name__,e,k,t,m0.astype(int).tolist(),sorted(S))
    if not (mask==m0).all(): print("MASK MODIFIED")
print(stats)
