import numpy as np, random, sys, itertools, time
from dsw import *
rng = random.Random(int(sys.argv[1]) if len(sys.argv)>1 else 0)
NT="ACGT"
def is_walk(acc, s, v):
    for ch in s:
        j = NT.find(ch)
        if j<0 or acc[v][j]<0: return False
        v = acc[v][j]
    return True
def rand_walk(acc, v, n):
    s=""
    for _ in range(n):
        js=[j for j in range(4) if acc[v][j]>=0]
        j=rng.choice(js); s+=NT[j]; v=acc[v][j]
    return s
def gen_graph(k):
    while True:
        t=rng.choice([2,2,2,3])
        p={2:rng.choice([0.55,0.65,0.75,0.9]),3:rng.choice([0.9,0.95])}[t]
        m = np.array([1 if rng.random()<p else 0 for _ in range(4**k)])
        try:
            v,a = connect_coding_graph(k, m, t); return a
        except ValueError: pass
def apply_edits(w, edits):
    s=list(w)
    for (kind,pos,nt) in sorted(edits, key=lambda e:-e[1]):
        if kind=='S': s[pos]=nt
        elif kind=='I': s.insert(pos,nt)
        else: del s[pos]
    return "".join(s)
t0=time.time(); stats=dict(single=0,single_det=0,multi=0,multi_deteq=0,fail=0)
while time.time()-t0 < float(sys.argv[2]):
    k=rng.choice([1,2,2,3,3,4])
    a=gen_graph(k); verts=obtain_vertices(a); start=int(rng.choice(list(verts)))
    n=rng.randint(3*k+1, 3*k+8)
    w=rand_walk(a,start,n)
    # exhaustive singles
    for p in range(k, n-2*k):
        for kind in "SID":
            for nt in NT:
                if kind=='S' and nt==w[p]: continue
                if kind=='D' and nt!='A': continue
                e=[(kind,p,nt)]; c=apply_edits(w,e)
                for indel in ([True,False] if kind=='S' else [True]):
                  for vt in (None,set_vt(w,5)):
                    res,(det,flag,cnt,vis)=repair_dna(c,a,start,k,vt_check=vt,has_indel=indel,heap_size=1e18)
                    stats['single']+=1
                    iw=is_walk(a,c,start)
                    if (det==1)!=(not iw):
                        stats['fail']+=1; print("DETMISMATCH",k,start,w,e,c,det,iw,indel,vt, a.tolist() if k<3 else '')
                    if det==1:
                        stats['single_det']+=1
                        if w not in res:
                            stats['fail']+=1; print("FAIL1",k,start,w,e,c,res[:4],indel,vt, a.tolist() if k<3 else '')
    # multi
    for _ in range(20):
        ne=rng.choice([2,3])
        n2=3*k+1+(ne-1)*(3*k+2)+rng.randint(0,10)
        w2=rand_walk(a,start,n2)
        for attempt in range(50):
            ps=sorted(rng.sample(range(k,n2-2*k),ne))
            if all(ps[i+1]-ps[i]>=3*k+2 for i in range(ne-1)): break
        else: continue
        edits=[]
        for p in ps:
            kind=rng.choice("SID"); nt=rng.choice([c for c in NT if c!=w2[p]]) if kind=='S' else rng.choice(NT)
            edits.append((kind,p,nt))
        c=apply_edits(w2,edits)
        vt=set_vt(w2,6) if rng.random()<0.5 else None
        res,(det,flag,cnt,vis)=repair_dna(c,a,start,k,vt_check=vt,has_indel=True,heap_size=1e18)
        stats['multi']+=1
        if det==ne:
            stats['multi_deteq']+=1
            if w2 not in res:
                stats['fail']+=1; print("FAILM",k,start,w2,edits,c,res[:4],vt, a.tolist() if k<3 else '')
print(stats)
