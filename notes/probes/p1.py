import numpy as np, signal, traceback
from dsw import *
class TO(Exception): pass
def handler(s,f): raise TO()
signal.signal(signal.SIGALRM, handler)
def run(name, f, t=5):
    signal.alarm(t)
    try:
        r = f(); print(name, "->", r)
    except TO: print(name, "-> TIMEOUT")
    except Exception as e: print(name, "-> EXC", type(e).__name__, e)
    finally: signal.alarm(0)

# C07 empty strand
run("set_vt empty", lambda: set_vt("", 4))
run("set_vt len1", lambda: set_vt("C", 4))
run("set_vt n=1", lambda: set_vt("ACGT", 1))
# C01 all zero
acc = get_complete_accessor(2)
run("enc zero", lambda: encode(np.array([0,0,0]), acc, 0))
run("enc zero vt", lambda: encode(np.array([0,0,0]), acc, 0, vt_length=3))
run("enc empty", lambda: encode(np.array([],dtype=int), acc, 0))
run("dec empty", lambda: decode("", 3, acc, 0))
run("dec empty0", lambda: decode("", 0, acc, 0))
# fast odd
run("fast odd", lambda: encode(np.array([1,0,1]), acc, 0, is_faster=True))
run("fast dec odd", lambda: decode("GC", 3, acc, 0, is_faster=True))
# C10 repair first nt
gc = np.array([[-1, -1, -1, -1], [ 4, -1, -1,  7], [ 8, -1, -1, 11], [-1, -1, -1, -1],[-1,  1,  2, -1], [-1, -1, -1, -1], [-1, -1, -1, -1], [-1, 13, 14, -1],[-1,  1,  2, -1], [-1, -1, -1, -1], [-1, -1, -1, -1], [-1, 13, 14, -1],[-1, -1, -1, -1], [ 4, -1, -1,  7], [ 8, -1, -1, 11], [-1, -1, -1, -1]])
run("repair first bad", lambda: repair_dna("CCTCTCTCTCTC", gc, 1, 2, has_indel=True))
run("repair last bad", lambda: repair_dna("TCTCTCTCTCTA", gc, 1, 2, has_indel=True))
run("repair 2nd last bad", lambda: repair_dna("TCTCTCTCTCAC", gc, 1, 2, has_indel=True))
run("repair clean", lambda: repair_dna("TCTCTCTCTCTC", gc, 1, 2, has_indel=True))
# C11 custom filter
class F(DefaultBioFilter):
    def __init__(self): super().__init__("x")
    def valid(self, dna_string): return dna_string.count("A")<2
run("find custom", lambda: find_vertices(2, F()))
# C03 threshold 1
m = np.zeros(16,dtype=int); m[[1,4]]=1  # AC->CA->AC cycle only
run("ccg t1 cycle only k2", lambda: connect_coding_graph(2, m, 1))
m = np.zeros(16,dtype=int); m[[1,4,2,8]]=1  
run("ccg t1", lambda: connect_coding_graph(2, m, 1))
