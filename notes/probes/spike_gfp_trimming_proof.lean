namespace Sp

inductive Res (α : Type) where
  | ok : α → Res α
  | valueError : Res α
  | outOfFuel : Res α
deriving Repr, DecidableEq

def degIn (succs : Nat → List Nat) (m : List Bool) (v : Nat) : Nat :=
  ((succs v).filter (fun u => m.getD u false)).length

def trimStep (succs : Nat → List Nat) (t : Nat) (m : List Bool) : List Bool :=
  m.mapIdx fun v b => b && decide (t ≤ degIn succs m v)

def trimLoop (succs : Nat → List Nat) (t : Nat) : Nat → List Bool → Res (List Bool)
  | 0, _ => .outOfFuel
  | f+1, m =>
    let m' := trimStep succs t m
    if m'.count true < 1 then .valueError
    else if m.count true = m'.count true then .ok m
    else trimLoop succs t f m'

/-- pointwise order on masks of equal length -/
def Le (a b : List Bool) : Prop := a.length = b.length ∧ ∀ i, a.getD i false = true → b.getD i false = true

theorem Le.refl (a : List Bool) : Le a a := ⟨rfl, fun _ h => h⟩
theorem Le.trans {a b c : List Bool} (h1 : Le a b) (h2 : Le b c) : Le a c :=
  ⟨h1.1.trans h2.1, fun i h => h2.2 i (h1.2 i h)⟩

theorem trimStep_length (succs t m) : (trimStep succs t m).length = m.length := by
  simp [trimStep]

theorem trimStep_getD (succs t m) (i : Nat) :
    (trimStep succs t m).getD i false = (m.getD i false && decide (t ≤ degIn succs m i)) := by
  unfold trimStep
  simp only [List.getD_eq_getElem?_getD, List.getElem?_mapIdx]
  cases h : m[i]? <;> simp

theorem trimStep_le (succs t m) : Le (trimStep succs t m) m := by
  refine ⟨trimStep_length .., fun i h => ?_⟩
  rw [trimStep_getD] at h
  simp at h
  exact h.1

theorem filter_length_mono {α} (p q : α → Bool) (hpq : ∀ x, p x = true → q x = true) :
    ∀ l : List α, (l.filter p).length ≤ (l.filter q).length := by
  intro l
  induction l with
  | nil => simp
  | cons x xs ih =>
    simp only [List.filter_cons]
    cases hp : p x
    · cases hq : q x <;> simp <;> omega
    · simp [hpq x hp]; omega

theorem degIn_mono {succs} {a b : List Bool} (h : Le a b) (v : Nat) : degIn succs a v ≤ degIn succs b v := by
  unfold degIn
  exact filter_length_mono _ _ (fun u hu => h.2 u hu) _

theorem trimStep_mono {succs t} {a b : List Bool} (h : Le a b) : Le (trimStep succs t a) (trimStep succs t b) := by
  refine ⟨by simp [trimStep_length, h.1], fun i hi => ?_⟩
  rw [trimStep_getD] at hi ⊢
  simp at hi ⊢
  exact ⟨h.2 i hi.1, Nat.le_trans hi.2 (degIn_mono h i)⟩

theorem count_le_of_Le : ∀ {a b : List Bool}, Le a b → a.count true ≤ b.count true := by
  intro a
  induction a with
  | nil => intro b _; simp
  | cons x xs ih =>
    intro b h
    cases b with
    | nil => simp [Le] at h
    | cons y ys =>
      have hl : Le xs ys := ⟨by simpa using h.1, fun i hi => by simpa using h.2 (i+1) (by simpa using hi)⟩
      have h0 := h.2 0
      have hi := ih hl
      cases x <;> cases y
      · simpa using hi
      · simp; omega
      · simp at h0
      · simpa using hi

theorem eq_of_Le_of_count : ∀ {a b : List Bool}, Le a b → b.count true = a.count true → a = b := by
  intro a
  induction a with
  | nil => intro b h _; cases b <;> simp_all [Le]
  | cons x xs ih =>
    intro b h hc
    cases b with
    | nil => simp [Le] at h
    | cons y ys =>
      have hl : Le xs ys := ⟨by simpa using h.1, fun i hi => by simpa using h.2 (i+1) (by simpa using hi)⟩
      have h0 := h.2 0
      have hcl := count_le_of_Le hl
      cases x <;> cases y
      · simp at hc ⊢; exact ih hl hc
      · simp at hc; omega
      · simp at h0
      · simp at hc ⊢; exact ih hl hc

def Closed (succs : Nat → List Nat) (t : Nat) (m : List Bool) : Prop := trimStep succs t m = m

/-- main characterisation: the loop returns the greatest closed mask below the input. -/
theorem trimLoop_gfp (succs : Nat → List Nat) (t : Nat) :
    ∀ (f : Nat) (m s : List Bool), trimLoop succs t f m = .ok s →
      Closed succs t s ∧ Le s m ∧ ∀ c, Closed succs t c → Le c m → Le c s := by
  intro f
  induction f with
  | zero => intro m s h; simp [trimLoop] at h
  | succ f ih =>
    intro m s h
    simp only [trimLoop] at h
    split at h
    · simp at h
    · split at h
      · rename_i _ heq
        cases h
        have := eq_of_Le_of_count (trimStep_le succs t m) heq
        exact ⟨this, Le.refl _, fun c _ hc => hc⟩
      · obtain ⟨h1, h2, h3⟩ := ih _ _ h
        refine ⟨h1, h2.trans (trimStep_le ..), fun c hc hcm => h3 c hc ?_⟩
        have := trimStep_mono (succs := succs) (t := t) hcm
        rw [hc] at this
        exact this

/-- enough fuel: count + 1 rounds. -/
theorem trimLoop_fuel (succs : Nat → List Nat) (t : Nat) :
    ∀ (f : Nat) (m : List Bool), m.count true < f → trimLoop succs t f m ≠ .outOfFuel := by
  intro f
  induction f with
  | zero => intro m h; omega
  | succ f ih =>
    intro m h
    simp only [trimLoop]
    split
    · simp
    · split
      · simp
      · rename_i hne
        apply ih
        have := count_le_of_Le (trimStep_le succs t m)
        omega

end Sp
