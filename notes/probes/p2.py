import numpy as np, random, sys, itertools
from dsw import *
rng = random.Random(int(sys.argv[1]) if len(sys.argv)>1 else 0)
NT="ACGT"
def is_walk(acc, s, v):
    for ch in s:
        j = NT.find(ch)
        if j<0 or acc[v][j]<0: return False
        v = acc[v][j]
    return True
def rand_walk(acc, v, n):
    s=""
    for _ in range(n):
        js=[j for j in range(4) if acc[v][j]>=0]
        j=rng.choice(js); s+=NT[j]; v=acc[v][j]
    return s
def gen_graph(k, t, p):
    while True:
        m = np.array([1 if rng.random()<p else 0 for _ in range(4**k)])
        try:
            v,a = connect_coding_graph(k, m, t); return a
        except ValueError: pass
def apply_edits(w, edits):
    # edits sorted by pos desc apply
    s=list(w)
    for (kind,pos,nt) in sorted(edits, key=lambda e:-e[1]):
        if kind=='S': s[pos]=nt
        elif kind=='I': s.insert(pos,nt)
        else: del s[pos]
    return "".join(s)
fails=0; tot=0; det_eq=0
for it in range(400):
    k = rng.choice([1,2,3])
    t = rng.choice([2,3,4]) if k>1 else rng.choice([2,3,4])
    a = gen_graph(k,t,{2:rng.choice([0.7,0.85,1.0]),3:rng.choice([0.93,0.97,1.0]),4:1.0}[t])
    verts = obtain_vertices(a)
    start = int(rng.choice(list(verts)))
    ne = rng.choice([1,1,2,3])
    n = rng.randint(3*k+1 + (ne-1)*(3*k+2), 3*k+1+(ne-1)*(3*k+2)+12)
    w = rand_walk(a,start,n)
    # choose positions in [k, n-2k) pairwise >= 3k+2
    for attempt in range(50):
        ps = sorted(rng.sample(range(k, n-2*k), ne)) if n-3*k>=ne else None
        if ps and all(ps[i+1]-ps[i]>=3*k+2 for i in range(len(ps)-1)): break
    else: continue
    edits=[]
    for p in ps:
        kind=rng.choice("SID")
        if kind=='S': nt=rng.choice([c for c in NT if c!=w[p]])
        else: nt=rng.choice(NT)
        edits.append((kind,p,nt))
    c = apply_edits(w,edits)
    vt = set_vt(w,6) if rng.random()<0.5 else None
    res,(det,flag,cnt,vis) = repair_dna(c,a,start,k,vt_check=vt,has_indel=True,heap_size=1e18)
    tot+=1
    if det==ne:
        det_eq+=1
        if w not in res:
            fails+=1
            if fails<=8: print("FAIL k",k,"t",t,"start",start,"w",w,"edits",edits,"c",c,"res",res[:5],det,cnt, "walk?",is_walk(a,c,start))
    if ne==1:
        iw = is_walk(a,c,start)
        if (det==1) != (not iw):
            print("DETECT MISMATCH k",k,"w",w,"edits",edits,"c",c,"det",det,"iswalk",iw)
print("tot",tot,"det_eq",det_eq,"fails",fails)
