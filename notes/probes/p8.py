import numpy as np, random, sys, time, signal
from dsw import *
rng = random.Random(int(sys.argv[1]))
NT="ACGT"
class TO(Exception): pass
def handler(s,f): raise TO()
signal.signal(signal.SIGALRM, handler)
def is_walk(acc, s, v):
    for ch in s:
        j = NT.find(ch)
        if j<0 or acc[v][j]<0: return False
        v = acc[v][j]
    return True
stats=dict(n=0,fail=0,c6=0,c9=0)
t0=time.time()
while time.time()-t0<float(sys.argv[2]):
    k=rng.choice([1,2,2,3]); N=4**k; t=rng.choice([1,1,2,3])
    p=rng.choice([0.5,0.7,0.9,1.0])
    mask=np.array([1 if rng.random()<p else 0 for _ in range(N)])
    try: vs,acc=connect_coding_graph(k,mask,t)
    except ValueError: continue
    verts=obtain_vertices(acc).tolist()
    sh=np.array([rng.sample(range(4),4) for _ in range(N)]) if rng.random()<0.5 else None
    for start in rng.sample(verts,min(3,len(verts))):
        L=rng.choice([0,1,2,3,5,8,13,30])
        bits=np.array([rng.randint(0,1) for _ in range(L)],dtype=int)
        val=int("".join(map(str,bits)) or "0",2)
        stats['n']+=1
        signal.alarm(5)
        try:
            s,path=encode(bits,acc,start,shuffles=sh,need_path=True)
            signal.alarm(0)
            if not is_walk(acc,s,start): stats['fail']+=1; print("not walk")
            if len(s)>0:
                # last is information carrying
                if path[-1][1]!=1: stats['fail']+=1; print("last not info", s, path.tolist())
                prod=1
                for (v,f) in path[:-1]:
                    prod*= int((acc[v]>=0).sum()) if f else 1
                if prod>val: stats['fail']+=1; print("not tight",prod,val)
            if len(s)>L*N and L>0: stats['fail']+=1;print("too long")
            has3=any((acc[v]>=0).sum()==3 for v in verts)
            if not has3:
                signal.alarm(5)
                s2,p2=encode(bits,acc,start,shuffles=sh,need_path=True,is_faster=True)
                signal.alarm(0)
                if not is_walk(acc,s2,start): stats['fail']+=1; print("fast not walk")
                # bits carried
                v=start; carried=0
                for ch in s2:
                    d=int((acc[v]>=0).sum()); carried+= {4:2,2:1,1:0}[d]; v=acc[v][NT.index(ch)]
                if carried not in (L,L+1): stats['fail']+=1; print("fast carried",carried,L)
                if len(s2)>0:
                    # last info carrying: vertex before last
                    v=start
                    for ch in s2[:-1]: v=acc[v][NT.index(ch)]
                    if (acc[v]>=0).sum()<2: stats['fail']+=1; print("fast last not info")
        except TO:
            stats['fail']+=1; print("TIMEOUT encode",k,t,mask.tolist(),start,bits.tolist())
        except Exception as e:
            signal.alarm(0)
            stats['fail']+=1; print("EXC",type(e).__name__,e,k,t,start,bits.tolist())
        # C06: random strings / corrupted walks
        for _ in range(5):
            if rng.random()<0.5 and len(s)>0:
                c=list(s); i=rng.randrange(len(c)); op=rng.choice("SID")
                if op=='S': c[i]=rng.choice("ACGTNx")
                elif op=='I': c.insert(i,rng.choice("ACGTN"))
                else: del c[i]
                c="".join(c)
            else:
                c="".join(rng.choice("ACGT") for _ in range(rng.randint(0,8)))
            vt=None
            r=rng.random()
            if r<0.3: vt=set_vt(s,3) 
            elif r<0.4: 
                try: vt=set_vt(c,3)
                except Exception: vt=None
            exp_ok = is_walk(acc,c,start)
            if vt is not None and exp_ok:
                exp_ok = (set_vt(c,3)==vt)
            stats['c6']+=1
            try:
                d=decode(c,L,acc,start,shuffles=sh,vt_check=vt)
                if not exp_ok or len(d)!=L: stats['fail']+=1; print("C06 accepted non-walk",c,s)
            except ValueError:
                if exp_ok: stats['fail']+=1; print("C06 rejected walk",c,s,vt)
            except Exception as e:
                stats['fail']+=1; print("C06 EXC",type(e).__name__,e,repr(c),vt)
            # C09/C10
            c2="".join(ch for ch in c if ch in NT)
            if len(c2)>=k:
                stats['c9']+=1
                signal.alarm(5)
                try:
                    vt2 = vt if rng.random()<0.5 else None
                    indel=rng.random()<0.5
                    res,info=repair_dna(c2,acc,start,k,vt_check=vt2,has_indel=indel,heap_size=rng.choice([1,10,1000]))
                    signal.alarm(0)
                    if res!=sorted(set(res)): stats['fail']+=1; print("C09 unsorted")
                    if vt2 is not None and any(set_vt(x,len(vt2))!=vt2 for x in res): stats['fail']+=1; print("C09 check")
                    if is_walk(acc,c2,start):
                        expr=[c2] if (vt2 is None or set_vt(c2,len(vt2))==vt2) else []
                        if res!=expr or info[0]!=0: stats['fail']+=1; print("C09 clean",c2,res,info)
                    if not(isinstance(res,list) and len(info)==4): print("shape")
                except TO:
                    stats['fail']+=1; print("C10 TIMEOUT",k,c2,start)
                except Exception as e:
                    signal.alarm(0); stats['fail']+=1; print("C10 EXC",type(e).__name__,e,k,c2,start, acc.tolist() if k<3 else '')
print(stats)
