import numpy as np, random, sys, subprocess, time
from dsw import *
rng=random.Random(int(sys.argv[1])); NT="ACGT"
def rand_walk(acc,v,n):
    s=""
    for _ in range(n):
        js=[j for j in range(4) if acc[v][j]>=0]
        if not js: break
        j=rng.choice(js); s+=NT[j]; v=acc[v][j]
    return s
ops=[];exp=[]
t0=time.time()
for it in range(int(sys.argv[2])):
    k=rng.choice([1,2,2,3]); N=4**k
    acc=-np.ones((N,4),dtype=int); d=rng.choice([0.4,0.6,0.8,1.0])
    if rng.random()<0.5:
        for v in range(N):
            for j in range(4):
                if rng.random()<d: acc[v][j]=(4*v+j)%N
    else:
        m=np.array([1 if rng.random()<d else 0 for _ in range(N)])
        try: _,acc=connect_coding_graph(k,m,rng.choice([1,2]))
        except ValueError: continue
    start=rng.randrange(N)
    n=rng.randint(k,30)
    w=rand_walk(acc,start,n)
    c=list(w)
    for _ in range(rng.choice([0,1,1,2,3])):
        if not c: break
        i=rng.randrange(len(c)); op=rng.choice("SID")
        if op=='S': c[i]=rng.choice(NT)
        elif op=='I': c.insert(i,rng.choice(NT))
        else: del c[i]
    if rng.random()<0.15: c=[rng.choice(NT) for _ in range(rng.randint(k,20))]
    c="".join(c)
    if len(c)<k: continue
    vt=None
    r=rng.random()
    if r<0.3: vt=set_vt(w,rng.choice([1,3,6]))
    elif r<0.4: vt=set_vt(c,3)
    indel=rng.random()<0.6; heap=rng.choice([1,5,1000,10**6])
    res,info=repair_dna(c,acc,start,k,vt_check=vt,has_indel=indel,heap_size=heap)
    accs=";".join(",".join(str(int(x)) for x in row) for row in acc)
    ops.append(f"{accs} {c or '-'} {start} {k} {vt or '-'} {int(indel)} {heap}")
    exp.append(",".join(res)+f"|{info[0]}|{'true' if info[1] else 'false'}|{info[2]}|{info[3]}")
t1=time.time()
p=subprocess.run(["/tmp/spike/Sp/.lake/build/bin/spdriver"],input="\n".join(ops)+"\n",capture_output=True,text=True)
t2=time.time()
out=p.stdout.strip("\n").split("\n")
bad=0
for o,e,op in zip(out,exp,ops):
    if o!=e:
        bad+=1
        if bad<5: print("MISMATCH\n op",op[-80:],"\n lean",o[:200],"\n py  ",e[:200])
print("ops",len(ops),"bad",bad,"py %.1fs lean %.1fs"%(t1-t0,t2-t1), p.stderr[:300])
