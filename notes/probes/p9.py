import numpy as np, random, sys, time, math
from dsw import *
rng = random.Random(int(sys.argv[1]))
NT="ACGT"
fails=0
# C15
def rnd_num():
    r=rng.random()
    n=rng.choice([1,2,3,5,10,50,300])
    if r<0.2: return "9"*n
    if r<0.4: return "1"+"0"*(n-1)
    if r<0.45: return "0"
    s="".join(rng.choice("0123456789") for _ in range(n)).lstrip("0")
    return s or "0"
for _ in range(20000):
    a=rnd_num(); b=rng.randint(0,9); A=int(a)
    try:
        if calculus_addition(a,str(b))!=str(A+b): fails+=1; print("add",a,b,calculus_addition(a,str(b)))
        if calculus_multiplication(a,str(b))!=str(A*b): fails+=1; print("mul",a,b,calculus_multiplication(a,str(b)))
        q=calculus_division(a,str(b))
        if b>0 and q!=(str(A//b),str(A%b)): fails+=1; print("div",a,b,q)
        if A-b>=0:
            r=calculus_subtraction(a,str(b))
            if r!=str(A-b): fails+=1; print("sub",a,b,r)
    except Exception as e:
        fails+=1; print("EXC15",type(e).__name__,e,a,b)
print("C15 fails",fails)
# C16
f=0
for _ in range(3000):
    L=rng.choice([0,1,2,7,8,33,200])
    bits=[rng.randint(0,1) for _ in range(L)]
    if rng.random()<0.1: bits=[0]*L
    try:
        n1=bit_to_number(bits,is_string=True); n2=bit_to_number(bits,is_string=False)
        if str(n2)!=n1: f+=1; print("b2n",bits,n1,n2)
        if number_to_bit(n1,L)!=bits or number_to_bit(n2,L)!=bits: f+=1; print("n2b",bits)
        d="".join(rng.choice(NT) for _ in range(L))
        m1=dna_to_number(d,True); m2=dna_to_number(d,False)
        if str(m2)!=m1: f+=1; print("d2n")
        if number_to_dna(m1,L)!=d or number_to_dna(m2,L)!=d: f+=1; print("n2d",d,m1)
    except Exception as e:
        f+=1; print("EXC16",type(e).__name__,e,L)
print("C16 fails",f)
# C13
f=0
for k in range(1,7):
    for v in (range(4**k) if k<=5 else rng.sample(range(4**k),500)):
        s=number_to_dna(v,k)
        if dna_to_number(s,False)!=v: f+=1
        lat=[dna_to_number(s[1:]+c,False) for c in NT]; fo=[dna_to_number(c+s[:-1],False) for c in NT]
        if obtain_latters(v,k)!=lat or obtain_formers(v,k)!=fo: f+=1; print("C13",k,v)
print("C13 fails",f)
# C14
f=0
for _ in range(300):
    k=rng.choice([1,2,3]); N=4**k
    acc=-np.ones((N,4),dtype=int)
    d=rng.random()
    for v in range(N):
        for j in range(4):
            if rng.random()<d: acc[v][j]=(4*v+j)%N
    lm=accessor_to_latter_map(acc)
    a2=latter_map_to_accessor(lm,k)
    if not (a2==acc).all(): f+=1; print("C14 lm")
    m=accessor_to_adjacency_matrix(acc)
    a3=adjacency_matrix_to_accessor(m)
    if not (a3==acc).all(): f+=1; print("C14 mat",k)
    exp={v:[int(x) for x in acc[v] if x>=0] for v in range(N) if (acc[v]>=0).any()}
    if {int(a):b for a,b in lm.items()}!=exp: f+=1; print("C14 lmcontent")
    # illegal arc
    u=rng.randrange(N); w=rng.randrange(N)
    if w not in [(4*u+j)%N for j in range(4)]:
        m2=m.copy(); m2[u][w]=1
        try: adjacency_matrix_to_accessor(m2); f+=1; print("C14 illegal accepted",k,u,w)
        except ValueError: pass
        except Exception as e: f+=1; print("C14 EXC",type(e).__name__,e)
    v=rng.randrange(N); dpt=rng.randint(0,4)
    l1=sorted(obtain_leaf_vertices(v,dpt,accessor=acc).tolist()); l2=sorted(obtain_leaf_vertices(v,dpt,latter_map=lm).tolist())
    if l1!=l2: f+=1; print("C14 leaf")
print("C14 fails",f)
# all-zero matrix k
try:
    print(adjacency_matrix_to_accessor(np.zeros((1,1),dtype=int)))
except Exception as e: print("k0",type(e).__name__,e)
