import numpy as np
from dsw import *
class Budget(Exception): pass
class Counting(np.ndarray):
    def __new__(cls, arr, budget):
        obj=np.asarray(arr).view(cls); obj._box=[0,budget]; return obj
    def __array_finalize__(self,obj):
        self._box=getattr(obj,'_box',None)
    def __getitem__(self,idx):
        if self.ndim==2 and self._box is not None:
            self._box[0]+=1
            if self._box[0]>self._box[1]: raise Budget()
        return super().__getitem__(idx)
acc=get_complete_accessor(2)
c=Counting(acc,10**6)
bits=np.array([1,0,1,1,0,1,1,1])
s=encode(bits,c,0); print(s, c._box)
print(decode(s,8,c,0), c._box)
print(repair_dna("ACGTACGTAC",c,0,2,has_indel=True)[1], c._box)
# infinite loop case on pinned tree: dead-cycle graph
a=-np.ones((16,4),dtype=int); a[0][0]=0  # AA->AA only
c2=Counting(a,1000)
try: encode(np.array([1]),c2,0)
except Budget: print("budget hit", c2._box)
