import numpy as np, random, sys, time, math
from dsw import *
rng = random.Random(int(sys.argv[1]))
NT="ACGT"
def rc(s): return "".join({"A":"T","C":"G","G":"C","T":"A"}[c] for c in reversed(s))
def ref(s,k,run,gc,motifs):
    if any(c not in NT for c in s): return False
    if run is not None:
        i=0
        while i<len(s):
            j=i
            while j<len(s) and s[j]==s[i]: j+=1
            if j-i>run: return False
            i=j
    if motifs is not None:
        for m in motifs:
            if m in s: return False
            if all(c in NT for c in m):
                if rc(m) in s: return False
    if gc is not None:
        lo,hi=gc
        if len(s)>=k:
            for i in range(len(s)-k+1):
                g=sum(c in "CG" for c in s[i:i+k])
                if g>hi*k or g<lo*k: return False
        else:
            g=sum(c in "CG" for c in s); a=len(s)-g
            if g>hi*k or a>(1-lo)*k: return False
    return True
f=0;n=0
for _ in range(30000):
    k=rng.randint(1,8)
    run=rng.choice([None,1,2,3,k]) 
    if run is not None and run>k: run=k
    gc=rng.choice([None,[0.5,0.5],[0.4,0.6],[0.0,1.0],[0.3,0.5],[0.6,0.4],[0.25,0.75]])
    motifs=rng.choice([None,[],["GC"],["AAT","G"],["ACGT"],["GCC","TTA"]])
    if motifs is not None: motifs=[m for m in motifs if len(m)<=k]
    try: bf=LocalBioFilter(k,run,gc,motifs)
    except ValueError: continue
    L=rng.choice([0,1,k-1,k,k+1,2*k,3*k+1]); L=max(L,0)
    alpha=rng.choice(["ACGT","ACGT","AC","GC","ACGTN"])
    s="".join(rng.choice(alpha) for _ in range(L))
    n+=1
    a=bf.valid(s,only_last=False); b=ref(s,k,run,gc,motifs)
    if a!=b: f+=1; print("C12 all",k,run,gc,motifs,s,a,b)
    a=bf.valid(s,only_last=True); b=ref(s[-k:],k,run,gc,motifs)
    if a!=b: f+=1; print("C12 last",k,run,gc,motifs,s,a,b)
    if all(c in NT for c in s):
        if bf.valid(rc(s),only_last=False)!=bf.valid(s,only_last=False): f+=1; print("C12 rc",k,run,gc,motifs,s)
    if len(s)>=k and (run is None or run<k):
        conj=all(bf.valid(s[i:i+k],only_last=False) for i in range(len(s)-k+1))
        if conj!=bf.valid(s,only_last=False): f+=1; print("C12 conj",k,run,gc,motifs,s)
print("C12",n,f)
